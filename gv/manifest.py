"""Generates /verif/MANIFEST.json from the property modules that exist.

Run: python3-vt -m gv.manifest
"""
from __future__ import annotations

import importlib
import json
import os
import subprocess

from .core import VERIF

ALL = [f"C{n:02d}" for n in range(1, 35)]

# property id -> (category, technique, level text, level note, design ref)
META = {}


def meta(pid, category, technique, text, note, ref):
    META[pid] = dict(category=category, technique=technique, text=text, note=note, ref=ref)


NOT_BUILT_REASON = "check not built yet in this round (planned in DESIGN.md section 3)"
NOT_APPLICABLE = {}


def main():
    checks = []
    na = []
    for pid in ALL:
        modpath = os.path.join(VERIF, "gv", "props", pid.lower() + ".py")
        if pid in NOT_APPLICABLE:
            na.append(dict(property_id=pid, reason=NOT_APPLICABLE[pid]))
            continue
        if not os.path.exists(modpath):
            na.append(dict(property_id=pid, reason=NOT_BUILT_REASON))
            continue
        mod = importlib.import_module(f"gv.props.{pid.lower()}")
        m = getattr(mod, "MANIFEST", None) or META.get(pid)
        checks.append(dict(
            property_id=pid,
            quick_cmd=f"./check {pid} --tier quick",
            thorough_cmd=f"./check {pid} --tier thorough",
            evidence_file=f"/verif/evidence/{pid}.json",
            replay_cmd_template=f"./check {pid} --replay {{path}}",
            engine="gv",
            level_claimed=dict(category=m["category"], text=m["text"], design_ref=m["ref"]),
            level_note=m["note"],
            technique=m["technique"],
        ))
    try:
        commits = subprocess.run(["git", "-C", "/repo", "log", "--format=%H %s", "--grep=^verif hook"],
                                 capture_output=True, text=True).stdout.strip().splitlines()
    except Exception:
        commits = []
    manifest = dict(
        version=1,
        setup_cmd="./check --setup",
        hooks=dict(
            guard="wilfred_garden_verif",
            enable="RUSTFLAGS='--cfg wilfred_garden_verif' CARGO_TARGET_DIR=/verif/.build/target "
                   "CARGO_PROFILE_DEV_OPT_LEVEL=1 cargo build --offline --bin garden   (done by every ./check run)",
            baseline_off_cmd="cd /repo && cargo test --workspace --no-fail-fast --offline -- --test-threads 8",
            source_commits=[c.split()[0] for c in commits],
            add_only=True,
        ),
        engines=[dict(
            name="gv", path="/verif/gv",
            serves_properties=[c["property_id"] for c in checks],
            kind_free_text="Python harness: Hypothesis 6.168 (seeded, sharded over 16 processes, shrinking to a JSON "
                           "replay file) plus exhaustive enumerators; observes the real `garden` binary built from "
                           "/repo's working tree with --cfg wilfred_garden_verif (CLI subprocesses and the guarded "
                           "`verif-hook` JSON-lines worker)",
        )],
        checks=checks,
        not_applicable=na,
        notes="Exit protocol: 0 held / 1 + VIOLATION line / 2 infrastructure or inconclusive. Known findings are in "
              "/verif/known_findings.json. VERIF_SEED selects the PRNG seed (default 0).",
    )
    with open(os.path.join(VERIF, "MANIFEST.json"), "w") as f:
        json.dump(manifest, f, indent=1)
    print(f"MANIFEST.json: {len(checks)} checks, {len(na)} not claimed")


if __name__ == "__main__":
    main()
