from __future__ import annotations

import argparse
import importlib
import os
import sys

from . import core


def main():
    ap = argparse.ArgumentParser()
    ap.add_argument("pid", nargs="?")
    ap.add_argument("--tier", default=os.environ.get("VERIF_TIER", "quick"), choices=["quick", "thorough"])
    ap.add_argument("--replay")
    ap.add_argument("--setup", action="store_true")
    ap.add_argument("--no-build", action="store_true")
    a = ap.parse_args()

    if a.setup:
        core.build_sut(verbose=True)
        return 0
    if not a.pid:
        ap.error("property id required")
    if not a.no_build:
        core.build_sut()
    try:
        seed = int(os.environ.get("VERIF_SEED", "0"))
    except ValueError:
        seed = 0
    mod = importlib.import_module(f"gv.props.{a.pid.lower()}")
    if a.replay:
        return core.replay(mod, a.replay)
    return core.run_property(mod, a.tier, seed)


if __name__ == "__main__":
    sys.exit(main())
