"""Rust `{:?}` output of Garden's syntax tree -> a position-free generic tree (C33).

The hook's `ast` op prints each top-level item with the derived Debug impl (positions elided as
`Position { ... }`, ids normalised to `(_)`, optional commas to `_`).  `parse` reads that syntax into
Python values and `simplify` drops what is not syntax (positions, ids, `value_is_used`, comma markers) and
unwraps pure wrapper structs, giving the same shape the grammar generator (gv/gen/syntax.py) builds:

  tuple-struct / variant `Name(a, b)` -> ("Name", a, b)      unit variant `Name` -> ("Name",)
  `Symbol"x"` / `TypeSymbol"T"`        -> ("sym", "x")         `Some(x)` -> x, `None` -> None
  list -> list, Rust tuple -> ("T", ...), strings / numbers / bools as themselves
"""
from __future__ import annotations

import re

_NUM = re.compile(r"-?(inf|NaN|[0-9]+(\.[0-9]+)?(e[-+]?[0-9]+)?)")
POS = ("<pos>",)
DROP = object()
DROPPED_FIELDS = {"position", "pos", "id", "item_id", "value_is_used", "comma", "open_paren", "close_paren",
                  "open_brace", "close_brace", "path_pos", "arrow_pos", "interned_id"}


class DebugSyntaxError(Exception):
    pass


class _P:
    def __init__(self, s):
        self.s, self.i = s, 0

    def ws(self):
        while self.i < len(self.s) and self.s[self.i] in " \n\t":
            self.i += 1

    def peek(self):
        self.ws()
        return self.s[self.i] if self.i < len(self.s) else ""

    def eat(self, ch):
        self.ws()
        if not self.s.startswith(ch, self.i):
            raise DebugSyntaxError(f"expected {ch!r} at {self.i}: {self.s[self.i:self.i + 40]!r}")
        self.i += len(ch)

    def ident(self):
        self.ws()
        j = self.i
        while j < len(self.s) and (self.s[j].isalnum() or self.s[j] == "_"):
            j += 1
        if j == self.i:
            raise DebugSyntaxError(f"expected identifier at {self.i}: {self.s[self.i:self.i + 40]!r}")
        name = self.s[self.i:j]
        self.i = j
        return name

    def string(self):
        self.eat('"')
        out = []
        s = self.s
        while True:
            c = s[self.i]
            if c == '"':
                self.i += 1
                return "".join(out)
            if c == "\\":
                n = s[self.i + 1]
                self.i += 2
                if n == "n":
                    out.append("\n")
                elif n == "t":
                    out.append("\t")
                elif n == "r":
                    out.append("\r")
                elif n == "0":
                    out.append("\0")
                elif n in "\\\"'":
                    out.append(n)
                elif n == "u":
                    self.eat("{")
                    j = s.index("}", self.i)
                    out.append(chr(int(s[self.i:j], 16)))
                    self.i = j + 1
                else:
                    raise DebugSyntaxError(f"unknown escape \\{n}")
            else:
                out.append(c)
                self.i += 1

    def number(self):
        self.ws()
        m = _NUM.match(self.s, self.i)
        if not m:
            raise DebugSyntaxError(f"expected number at {self.i}: {self.s[self.i:self.i + 40]!r}")
        text = m.group(0)
        self.i = m.end()
        if any(c in text for c in ".e") or "inf" in text or "NaN" in text:
            return float(text)
        return int(text)

    def value(self):
        c = self.peek()
        if c == '"':
            return self.string()
        if c == "[":
            self.eat("[")
            items = self.seq("]")
            return items
        if c == "(":
            self.eat("(")
            return ("T",) + tuple(self.seq(")"))
        if c.isdigit() or c == "-":
            return self.number()
        name = self.ident()
        if name == "true":
            return True
        if name == "false":
            return False
        if name == "inf" or name == "NaN":
            return float(name)
        nxt = self.s[self.i] if self.i < len(self.s) else ""
        if nxt == '"':            # Symbol"foo", TypeSymbol"T"
            return ("C", name, [self.string()])
        c = self.peek()
        if c == "{":
            self.eat("{")
            if self.peek() == ".":
                self.eat("...")
                self.eat("}")
                return POS if name == "Position" else ("S", name, {})
            fields = {}
            while self.peek() != "}":
                f = self.ident()
                self.eat(":")
                fields[f] = self.value()
                if self.peek() == ",":
                    self.eat(",")
            self.eat("}")
            return ("S", name, fields)
        if c == "(" and self.s[self.i] == "(":
            self.eat("(")
            return ("C", name, self.seq(")"))
        return ("C", name, [])

    def seq(self, close):
        items = []
        while self.peek() != close:
            items.append(self.value())
            if self.peek() == ",":
                self.eat(",")
        self.eat(close)
        return items


def parse(text: str):
    p = _P(text)
    v = p.value()
    p.ws()
    if p.i != len(p.s):
        raise DebugSyntaxError(f"trailing text at {p.i}: {p.s[p.i:p.i + 40]!r}")
    return v


def simplify(v):
    if v is POS:
        return DROP
    if isinstance(v, (str, int, float, bool)) or v is None:
        return v
    if isinstance(v, list):
        return [x for x in (simplify(i) for i in v) if x is not DROP]
    kind = v[0]
    if kind == "T":
        return ("T",) + tuple(x for x in (simplify(i) for i in v[1:]) if x is not DROP)
    if kind == "C":
        name, args = v[1], v[2]
        if name in ("Symbol", "TypeSymbol") and len(args) == 1 and isinstance(args[0], str):
            return ("sym", args[0])
        if name == "Some" and len(args) == 1:
            return simplify(args[0])
        if name == "None" and not args:
            return None
        if name == "OrderedFloat" and len(args) == 1:
            return simplify(args[0])
        return (name,) + tuple(x for x in (simplify(a) for a in args) if x is not DROP)
    if kind == "S":
        name, f = v[1], v[2]
        g = lambda k: simplify(f[k])
        if name == "Expression":
            return g("expr_")
        if name in ("ExpressionWithComma", "ParenthesizedExpression"):
            return g("expr")
        if name == "ParenthesizedArguments":
            return g("arguments")
        if name == "ParenthesizedParameters":
            return g("params")
        if name == "Block":
            return ("Block", g("exprs"))
        if name == "BinaryOperatorSymbol":
            return g("kind")
        if name == "TypeHint":
            return ("TypeHint", g("sym"), g("args"))
        if name == "SymbolWithHint":
            return ("Param", g("symbol"), g("hint"))
        if name == "Pattern":
            return ("Pattern", g("variant_sym"), g("payload"))
        if name == "DictKeyValue":
            return ("KV", g("key"), g("value"))
        if name == "FieldInfo":
            return ("Field", g("sym"), g("hint"), g("doc_comment"))
        if name == "VariantInfo":
            return ("Variant", g("name_sym"), g("payload_hint"))
        if name == "FunInfo":
            return ("FunInfo", g("doc_comment"), g("name_sym"), g("type_params"), g("params"), g("return_hint"),
                    g("body"))
        if name == "MethodInfo":
            return ("MethodInfo", g("receiver_hint"), g("receiver_sym"), g("name_sym"), g("kind"))
        if name == "TestInfo":
            return ("TestInfo", g("doc_comment"), g("name_sym"), g("body"))
        if name == "StructInfo":
            return ("StructInfo", g("visibility"), g("doc_comment"), g("name_sym"), g("type_params"), g("fields"))
        if name == "EnumInfo":
            return ("EnumInfo", g("visibility"), g("doc_comment"), g("name_sym"), g("type_params"), g("variants"))
        if name == "ImportInfo":
            return ("ImportInfo", g("path"), g("namespace_sym"))
        # unknown struct: keep everything that is not a position / id, so that it can never compare equal by accident
        rest = tuple((k, simplify(x)) for k, x in sorted(f.items()) if k not in DROPPED_FIELDS)
        return ("S:" + name,) + tuple((k, x) for k, x in rest if x is not DROP)
    raise DebugSyntaxError(f"unexpected node {v!r}")


def tree_of(debug_text: str):
    return simplify(parse(debug_text))


def first_difference(a, b, path="root"):
    """Human-readable location of the first difference between two simplified trees."""
    if type(a) != type(b) and not (isinstance(a, (int, float)) and isinstance(b, (int, float))):
        return f"{path}: {a!r} != {b!r}"
    if isinstance(a, (list, tuple)):
        if len(a) != len(b):
            heads = (a[0] if a and isinstance(a[0], str) else "", b[0] if b and isinstance(b[0], str) else "")
            return f"{path}: length {len(a)} != {len(b)} {heads}: {str(a)[:200]} != {str(b)[:200]}"
        for i, (x, y) in enumerate(zip(a, b)):
            d = first_difference(x, y, f"{path}/{a[0] if a and isinstance(a[0], str) and i else ''}[{i}]")
            if d:
                return d
        return None
    if a != b:
        return f"{path}: {a!r} != {b!r}"
    return None
