"""Reference subtype relation and a bounded universe of well-formed types (C14 / C15).

Types: ("Any",) ("NoValue",) ("B", name)  base type without arguments  ("P", name) type parameter
       ("C", name, (args...)) user/builtin constructor  ("T", (elems...)) tuple  ("F", (params...), ret)
Written from the property statement: reflexive, transitive, Any top, NoValue bottom, tuples and
user-defined types covariant in their arguments (same name and arity), functions contravariant in
parameters and covariant in the result (same arity), a type parameter only below itself and Any.
"""
from __future__ import annotations

import itertools

ANY, NOVALUE = ("Any",), ("NoValue",)
KINDS = {"Int": "Struct", "String": "Struct", "Float": "Struct", "Bool": "Enum", "Unit": "Enum", "Color": "Enum",
         "List": "Struct", "Dict": "Struct", "Box": "Struct", "Option": "Enum", "Result": "Enum", "NoValue": "Enum"}


def subtype(a, b) -> bool:
    if b == ANY:
        return True
    if a == NOVALUE:
        return True
    if a == ANY:
        return False
    ka, kb = a[0], b[0]
    if ka == "P":
        return kb == "P" and a[1] == b[1]
    if ka == "B":
        return kb == "B" and a[1] == b[1]
    if ka == "T":
        return kb == "T" and len(a[1]) == len(b[1]) and all(subtype(x, y) for x, y in zip(a[1], b[1]))
    if ka == "C":
        return (kb == "C" and a[1] == b[1] and len(a[2]) == len(b[2])
                and all(subtype(x, y) for x, y in zip(a[2], b[2])))
    if ka == "F":
        return (kb == "F" and len(a[1]) == len(b[1]) and all(subtype(y, x) for x, y in zip(a[1], b[1]))
                and subtype(a[2], b[2]))
    return False


def to_json(t):
    k = t[0]
    if k == "Any":
        return {"k": "Any"}
    if k == "NoValue":
        return {"k": "User", "kind": "Enum", "n": "NoValue", "a": []}
    if k == "B":
        return {"k": "User", "kind": KINDS[t[1]], "n": t[1], "a": []}
    if k == "P":
        return {"k": "Param", "n": t[1]}
    if k == "C":
        return {"k": "User", "kind": KINDS[t[1]], "n": t[1], "a": [to_json(x) for x in t[2]]}
    if k == "T":
        return {"k": "Tuple", "a": [to_json(x) for x in t[1]]}
    if k == "F":
        return {"k": "Fun", "p": [to_json(x) for x in t[1]], "r": to_json(t[2])}
    raise ValueError(t)


def from_json(j):
    if j is None:
        return None
    k = j["k"]
    if k == "Any":
        return ANY
    if k == "Error":
        return ("Error",)
    if k == "Param":
        return ("P", j["n"])
    if k == "Tuple":
        return ("T", tuple(from_json(x) for x in j["a"]))
    if k == "Fun":
        return ("F", tuple(from_json(x) for x in j["p"]), from_json(j["r"]))
    if j["n"] == "NoValue":
        return NOVALUE
    if not j["a"] and j["n"] not in ("List", "Dict", "Box", "Option", "Result"):
        return ("B", j["n"])
    return ("C", j["n"], tuple(from_json(x) for x in j["a"]))


def show(t) -> str:
    k = t[0]
    if k in ("Any", "NoValue"):
        return k
    if k in ("B", "P"):
        return t[1]
    if k == "C":
        return f"{t[1]}<{', '.join(show(x) for x in t[2])}>"
    if k == "T":
        return "(" + ", ".join(show(x) for x in t[1]) + ("," if len(t[1]) == 1 else "") + ")"
    if k == "F":
        return f"Fun<({', '.join(show(x) for x in t[1])}), {show(t[2])}>"
    return str(t)


BASE = [ANY, NOVALUE, ("B", "Int"), ("B", "String"), ("B", "Bool"), ("B", "Unit"), ("B", "Color"), ("P", "T"), ("P", "U")]
SMALL = [ANY, NOVALUE, ("B", "Int"), ("B", "String"), ("P", "T")]


def layer(args_full, args_small):
    """All types built by one constructor application over the given argument pools."""
    out = []
    for c in ("List", "Option", "Dict", "Box"):
        out += [("C", c, (a,)) for a in args_full]
    out += [("C", "Result", (a, b)) for a in args_small for b in args_small]
    out.append(("T", ()))
    out += [("T", (a,)) for a in args_full]
    out += [("T", (a, b)) for a in args_small for b in args_small]
    out += [("F", (), r) for r in args_small]
    out += [("F", (a,), r) for a in args_small for r in args_small]
    out += [("F", (a, b), r) for a in args_small for b in args_small for r in args_small]
    return out


def universe1():
    u = list(BASE) + layer(BASE, SMALL)
    seen, out = set(), []
    for t in u:
        if t not in seen:
            seen.add(t)
            out.append(t)
    return out


def universe2(limit_args=None):
    """Depth 2: constructors over a reduced depth-1 pool."""
    pool1 = [("C", "List", (("B", "Int"),)), ("C", "List", (NOVALUE,)), ("C", "Option", (("P", "T"),)),
             ("T", (("B", "Int"), ("B", "String"))), ("T", (NOVALUE, ANY)), ("F", (("B", "Int"),), ("B", "String")),
             ("F", (ANY,), NOVALUE), ("C", "Result", (("B", "Int"), ("B", "String")))]
    full = BASE + pool1
    small = SMALL + pool1[:4]
    u = universe1() + layer(full, small)
    seen, out = set(), []
    for t in u:
        if t not in seen:
            seen.add(t)
            out.append(t)
    return out


def widen(r, t, depth=0):
    """A supertype of t obtained by one variance step (used to build chains a <: b <: c)."""
    c = r.int(0, 5)
    if c == 0:
        return ANY
    if c == 1 or depth > 2:
        return t
    k = t[0]
    if k == "NoValue":
        return r.choice(BASE[2:])
    if k == "C" and t[2]:
        i = r.int(0, len(t[2]) - 1)
        args = list(t[2])
        args[i] = widen(r, args[i], depth + 1)
        return ("C", t[1], tuple(args))
    if k == "T" and t[1]:
        i = r.int(0, len(t[1]) - 1)
        e = list(t[1])
        e[i] = widen(r, e[i], depth + 1)
        return ("T", tuple(e))
    if k == "F":
        if t[1] and r.bool():
            i = r.int(0, len(t[1]) - 1)
            p = list(t[1])
            p[i] = narrow(r, p[i], depth + 1)
            return ("F", tuple(p), t[2])
        return ("F", t[1], widen(r, t[2], depth + 1))
    return t


def narrow(r, t, depth=0):
    c = r.int(0, 4)
    if c == 0:
        return NOVALUE
    if c == 1 or depth > 2:
        return t
    k = t[0]
    if k == "Any":
        return r.choice(BASE[2:])
    if k == "C" and t[2]:
        i = r.int(0, len(t[2]) - 1)
        args = list(t[2])
        args[i] = narrow(r, args[i], depth + 1)
        return ("C", t[1], tuple(args))
    if k == "T" and t[1]:
        i = r.int(0, len(t[1]) - 1)
        e = list(t[1])
        e[i] = narrow(r, e[i], depth + 1)
        return ("T", tuple(e))
    if k == "F":
        return ("F", t[1], narrow(r, t[2], depth + 1))
    return t


def gen_type(r, depth):
    if depth <= 0:
        return r.choice(BASE)
    k = r.int(0, 8)
    if k <= 1:
        return r.choice(BASE)
    if k == 2:
        return ("C", r.choice(["List", "Option", "Dict", "Box"]), (gen_type(r, depth - 1),))
    if k == 3:
        return ("C", "Result", (gen_type(r, depth - 1), gen_type(r, depth - 1)))
    if k in (4, 5):
        return ("T", tuple(gen_type(r, depth - 1) for _ in range(r.int(0, 3))))
    return ("F", tuple(gen_type(r, depth - 1) for _ in range(r.int(0, 2))), gen_type(r, depth - 1))
