"""Reference interpreter for G-core programs (gv/gen/core.py), written from the property
statements, the website pages and the repository's reftests — not from eval.rs.

Semantics: i64 two's-complement wrap for + - *, truncating /, Euclidean %, both operands of every
binary operator are evaluated left then right (also && and ||, as documented), block scoping by
construction (every variable occurrence carries its binder), `for` binds a fresh variable per
iteration, `return` leaves the innermost function or closure.
"""
from __future__ import annotations

from . import arith as A
from ..gen.core import E, S, Block, FunDef, Program, Binder, INT, BOOL, STR, UNIT


class GErr(Exception):
    """A Garden-level runtime error."""

    def __init__(self, kind, msg=""):
        super().__init__(kind)
        self.kind = kind
        self.msg = msg


class _Break(Exception):
    pass


class _Continue(Exception):
    pass


class _Return(Exception):
    def __init__(self, v):
        self.v = v


class Budget(Exception):
    pass


UNITV = ("Unit",)


def show(v) -> str:
    if isinstance(v, bool):
        return "True" if v else "False"
    if isinstance(v, int):
        return str(v)
    if isinstance(v, str):
        return '"' + v.replace("\\", "\\\\").replace('"', '\\"').replace("\n", "\\n") + '"'
    if isinstance(v, list):
        return "[" + ", ".join(show(x) for x in v) + "]"
    if isinstance(v, tuple):
        tag = v[0]
        if tag == "Unit":
            return "Unit"
        if tag == "T":
            items = v[1]
            if len(items) == 1:
                return "(" + show(items[0]) + ",)"
            return "(" + ", ".join(show(x) for x in items) + ")"
        if tag == "Some":
            return "Some(" + show(v[1]) + ")"
        if tag == "None":
            return "None"
        if tag == "Ok":
            return "Ok(" + show(v[1]) + ")"
        if tag == "Err":
            return "Err(" + show(v[1]) + ")"
        if tag == "V":
            if v[2] is None:
                return v[1]
            return f"{v[1]}({show(v[2])})"
        if tag == "Closure":
            return "<closure>"
    raise ValueError(v)


class Interp:
    def __init__(self, max_steps=60000):
        self.out = []
        self.steps = 0
        self.max_steps = max_steps
        self.trace = None     # optional: dict expr-id -> first value (for C27)
        self.call_depth = 0

    def tick(self):
        self.steps += 1
        if self.steps > self.max_steps:
            raise Budget()

    # ---- expressions
    def ev(self, e: E, env: dict):
        v = self._ev(e, env)
        if self.trace is not None and e.id not in self.trace:
            self.trace[e.id] = v
        return v

    def _ev(self, e: E, env: dict):
        self.tick()
        k = e.kind
        a = e.args
        if k == "int" or k == "bool" or k == "str":
            return a[0]
        if k == "unit":
            return UNITV
        if k == "var":
            return env[a[0].id]
        if k == "bin":
            op, l, r = a
            lv = self.ev(l, env)
            rv = self.ev(r, env)
            return self.binop(op, lv, rv)
        if k == "callb":
            name, args = a
            vs = [self.ev(x, env) for x in args]
            if name == "not":
                return not vs[0]
            if name == "string_repr":
                return show(vs[0])
            if name == "range":
                return list(range(vs[0], vs[1]))
            raise ValueError(name)
        if k == "call":
            f, args = a
            vs = [self.ev(x, env) for x in args]
            return self.call_fun(f, vs)
        if k == "callv":
            b, args = a
            clo = env[b.id]
            vs = [self.ev(x, env) for x in args]
            return self.call_closure(clo, vs)
        if k == "method":
            recv, name, args = a
            rv = self.ev(recv, env)
            vs = [self.ev(x, env) for x in args]
            if name == "len":
                return len(rv)
            if name == "append":
                return rv + [vs[0]]
            if name == "get":
                i = vs[0]
                if 0 <= i < len(rv):
                    return ("Some", rv[i])
                return ("None",)
            if name == "or_throw":
                if rv[0] == "Some" or rv[0] == "Ok":
                    return rv[1]
                if rv[0] == "None":
                    raise GErr("or_throw_none")
                raise GErr("or_throw_err", show(rv[1]))
            raise ValueError(name)
        if k == "list":
            return [self.ev(x, env) for x in a[0]]
        if k == "tuple":
            return ("T", tuple(self.ev(x, env) for x in a[0]))
        if k == "some":
            return ("Some", self.ev(a[0], env))
        if k == "none":
            return ("None",)
        if k == "ok":
            return ("Ok", self.ev(a[0], env))
        if k == "err":
            return ("Err", self.ev(a[0], env))
        if k == "variant":
            name, payload = a
            return ("V", name, None if payload is None else self.ev(payload, env))
        if k == "if":
            c, tb, eb = a
            if self.ev(c, env):
                return self.block(tb, env)
            return self.block(eb, env)
        if k == "match":
            scrut, arms = a
            sv = self.ev(scrut, env)
            return self.match(sv, arms, env)
        if k == "lambda":
            params, rt, body = a
            return ("Closure", params, body, dict(env))
        raise ValueError(k)

    def binop(self, op, lv, rv):
        if op in ("+", "-", "*", "/", "%", "<", "<=", ">", ">="):
            try:
                return A.int_op(op, lv, rv)[1]
            except A.GardenError as ex:
                raise GErr(ex.kind)
        if op == "&&":
            return lv and rv
        if op == "||":
            return lv or rv
        if op == "^":
            return lv + rv
        if op == "==":
            return lv == rv
        if op == "!=":
            return lv != rv
        raise ValueError(op)

    def match(self, sv, arms, env):
        for pat, blk in arms:
            pk = pat[0]
            if pk == "wild":
                return self.block(blk, env)
            if pk == "some" and sv[0] == "Some":
                env[pat[1].id] = sv[1]
                return self.block(blk, env)
            if pk == "none" and sv[0] == "None":
                return self.block(blk, env)
            if pk == "ok" and sv[0] == "Ok":
                env[pat[1].id] = sv[1]
                return self.block(blk, env)
            if pk == "err" and sv[0] == "Err":
                env[pat[1].id] = sv[1]
                return self.block(blk, env)
            if pk == "variant" and sv[0] == "V" and sv[1] == pat[1]:
                if pat[2] is not None:
                    env[pat[2].id] = sv[2]
                return self.block(blk, env)
        raise GErr("no_match")

    def call_fun(self, f: FunDef, vs):
        self.call_depth += 1
        if self.call_depth > 150:
            raise Budget()
        env = {p.id: v for p, v in zip(f.params, vs)}
        try:
            try:
                v = self.block(f.body, env)
            except _Return as r:
                v = r.v
        finally:
            self.call_depth -= 1
        if f.ret == UNIT:
            return UNITV
        return v

    def call_closure(self, clo, vs):
        _, params, body, cenv = clo
        env = dict(cenv)
        for p, v in zip(params, vs):
            env[p.id] = v
        try:
            return self.block(body, env)
        except _Return as r:
            return r.v

    # ---- statements
    def block(self, b: Block, env):
        for s in b.stmts:
            self.stmt(s, env)
        if b.value is not None:
            return self.ev(b.value, env)
        return UNITV

    def stmt(self, s: S, env):
        self.tick()
        k = s.kind
        a = s.args
        if k == "let":
            env[a[0].id] = self.ev(a[2], env)
        elif k == "letd":
            v = self.ev(a[1], env)
            for b, x in zip(a[0], v[1]):
                env[b.id] = x
        elif k == "assign":
            env[a[0].id] = self.ev(a[1], env)
        elif k == "addassign":
            b, op, e = a
            rv = self.ev(e, env)
            env[b.id] = A.wrap(env[b.id] + rv) if op == "+=" else A.wrap(env[b.id] - rv)
        elif k == "print":
            v = self.ev(a[0], env)
            self.out.append(v if a[0].type == STR else show(v))
        elif k == "expr":
            self.ev(a[0], env)
        elif k == "if":
            c, tb, eb = a
            if self.ev(c, env):
                self.block(tb, env)
            elif eb is not None:
                self.block(eb, env)
        elif k == "for":
            dest, le, body = a
            lst = self.ev(le, env)
            for item in list(lst):
                if isinstance(dest, tuple):
                    for b, x in zip(dest, item[1]):
                        env[b.id] = x
                else:
                    env[dest.id] = item
                try:
                    self.block(body, env)
                except _Break:
                    break
                except _Continue:
                    continue
        elif k == "while":
            cb, limit, extra, body = a
            env[cb.id] = 0
            while True:
                self.tick()
                cond = env[cb.id] < limit
                if extra is not None:
                    ev = self.ev(extra, env)   # both sides of && are evaluated
                    cond = cond and ev
                if not cond:
                    break
                env[cb.id] = env[cb.id] + 1
                try:
                    self.block(body, env)
                except _Break:
                    break
                except _Continue:
                    continue
        elif k == "match":
            sv = self.ev(a[0], env)
            self.match(sv, a[1], env)
        elif k == "break":
            raise _Break()
        elif k == "continue":
            raise _Continue()
        elif k == "return":
            raise _Return(UNITV if a[0] is None else self.ev(a[0], env))
        elif k == "assert":
            if not self.ev(a[0], env):
                raise GErr("assert")
        elif k == "throw":
            raise GErr("throw", self.ev(a[0], env))
        elif k == "probe":
            name, binder = a
            if binder is None:
                raise GErr("unbound", name)
            self.out.append(show(env[binder.id]))
        else:
            raise ValueError(k)

    def run(self, p: Program):
        """-> (stdout lines, outcome) where outcome is ("ok",) or ("err", kind, msg)."""
        env = {}
        try:
            for s in p.main.stmts:
                self.stmt(s, env)
        except GErr as ex:
            return self.out, ("err", ex.kind, ex.msg)
        return self.out, ("ok",)


# stderr patterns of `garden run` for each error kind (anchored on the first line of the report)
OUTCOME_PATTERNS = {
    "div-by-zero": r"^Exception: Tried to divide .* by zero\.",
    "rem-by-zero": r"^Exception: Tried to calculate the remainder of dividing .* by zero\.",
    "unrepresentable": r"^Exception: Integer overflow",
    "assert": r"^Exception: (Assertion failed|Expected `.*` but got `.*`\.)",
    "or_throw_none": r"^Exception: Called `or_throw` on a `None` value\.",
    "or_throw_err": r"^Exception: Called `or_throw\(\)` on an `Err`\.",
    "no_match": r"^Exception: .*match",
    "unbound": r"^Exception: No such variable `\w+`\.",
}
