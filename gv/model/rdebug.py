"""Parser for Rust `{:?}` output of Garden's syntax tree (as emitted by the `ast` hook op).

Result: nested Python values
  ("node", name, [positional values])      Name(a, b)
  ("struct", name, {field: value})         Name { f: v }
  ("sym", kind, text)                      Symbol"x" / TypeSymbol"T"
  list, str, int, float, bool, None, ("ident", name)
"""
from __future__ import annotations

import re

_TOKEN = re.compile(r'''\s*(?:
    (?P<str>"(?:\\.|[^"\\])*") |
    (?P<num>-?\d+(?:\.\d+)?(?:e-?\d+)?) |
    (?P<dots>\.\.\.) |
    (?P<ident>[A-Za-z_][A-Za-z0-9_]*) |
    (?P<punct>[(){}\[\],:])
)''', re.X)


def _unescape(s: str) -> str:
    body = s[1:-1]
    out = []
    i = 0
    while i < len(body):
        c = body[i]
        if c == "\\":
            n = body[i + 1]
            if n == "n":
                out.append("\n")
            elif n == "t":
                out.append("\t")
            elif n == "r":
                out.append("\r")
            elif n == "0":
                out.append("\0")
            elif n == "u":
                j = body.index("}", i)
                out.append(chr(int(body[i + 3:j], 16)))
                i = j + 1
                continue
            else:
                out.append(n)
            i += 2
        else:
            out.append(c)
            i += 1
    return "".join(out)


class _P:
    def __init__(self, s):
        self.s = s
        self.i = 0
        self.tok = None
        self.next()

    def next(self):
        m = _TOKEN.match(self.s, self.i)
        if not m:
            if self.s[self.i:].strip() == "":
                self.tok = ("eof", None)
                return
            raise ValueError(f"rdebug: cannot tokenise at {self.s[self.i:self.i + 40]!r}")
        self.i = m.end()
        self.tok = (m.lastgroup, m.group(m.lastgroup))

    def expect(self, p):
        if self.tok != ("punct", p):
            raise ValueError(f"rdebug: expected {p} got {self.tok} near {self.s[max(0, self.i - 60):self.i + 20]!r}")
        self.next()

    def value(self):
        k, v = self.tok
        if k == "str":
            self.next()
            return _unescape(v)
        if k == "num":
            self.next()
            return float(v) if ("." in v or "e" in v) else int(v)
        if k == "punct" and v == "[":
            self.next()
            items = self.seq("]")
            return items
        if k == "punct" and v == "(":
            self.next()
            items = self.seq(")")
            return ("tuple", items)
        if k == "ident":
            name = v
            self.next()
            # Symbol"x"
            if self.tok[0] == "str" and name in ("Symbol", "TypeSymbol"):
                t = _unescape(self.tok[1])
                self.next()
                return ("sym", name, t)
            if self.tok == ("punct", "("):
                self.next()
                return ("node", name, self.seq(")"))
            if self.tok == ("punct", "{"):
                self.next()
                fields = {}
                while self.tok != ("punct", "}"):
                    if self.tok[0] == "dots":
                        self.next()
                        continue
                    fk = self.tok[1]
                    self.next()
                    self.expect(":")
                    fields[fk] = self.value()
                    if self.tok == ("punct", ","):
                        self.next()
                self.next()
                return ("struct", name, fields)
            if name == "true":
                return True
            if name == "false":
                return False
            if name == "None":
                return None
            return ("ident", name)
        raise ValueError(f"rdebug: unexpected token {self.tok}")

    def seq(self, close):
        items = []
        while self.tok != ("punct", close):
            items.append(self.value())
            if self.tok == ("punct", ","):
                self.next()
        self.next()
        return items


def parse(s: str):
    p = _P(s)
    v = p.value()
    if p.tok[0] != "eof":
        raise ValueError("rdebug: trailing input")
    return v


# ---- simplification into a compact S-expression used by C03/C33 ----------------------------------

def simp(v):
    """Drop positions/ids and unwrap wrappers; keep structure, names and literal values."""
    if isinstance(v, list):
        return [simp(x) for x in v]
    if not isinstance(v, tuple):
        return v
    tag = v[0]
    if tag == "sym":
        return v[2]
    if tag == "ident":
        return v[1]
    if tag == "tuple":
        return ("tuple", [simp(x) for x in v[1]])
    if tag == "node":
        name, args = v[1], v[2]
        if name in ("Some",) and len(args) == 1:
            return simp(args[0])
        if name in ("SyntaxId", "ToplevelItemId", "InternedSymbolId"):
            return None
        if name == "OrderedFloat":
            return ("float", args[0])
        return (name, [simp(a) for a in args])
    if tag == "struct":
        name, f = v[1], v[2]
        if name == "Position":
            return None
        if name == "Expression":
            e = simp(f["expr_"])
            if f.get("value_is_used") is False:
                return ("unused", e)
            return e
        if name == "BinaryOperatorSymbol":
            return simp(f["kind"])
        if name == "ExpressionWithComma":
            return simp(f["expr"])
        if name == "ParenthesizedExpression":
            return ("Parens", simp(f["expr"]))
        if name == "ParenthesizedArguments":
            return [simp(a) for a in f["arguments"]]
        if name == "ParenthesizedParameters":
            return [simp(a) for a in f["params"]]
        if name == "Block":
            return ("Block", [simp(e) for e in f["exprs"]])
        if name == "SymbolName" or name == "TypeName":
            return simp(f.get("text"))
        out = {}
        for k, x in f.items():
            if k in ("position", "pos", "id", "interned_id", "open_paren", "close_paren", "open_brace",
                     "close_brace", "comma", "arrow_pos", "path_pos", "item_id"):
                continue
            out[k] = simp(x)
        return (name, out)
    return v
