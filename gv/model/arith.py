"""Reference arithmetic for Garden's operators, written from the property statement (C04) and the
website operator pages — not from eval.rs.

Values are Python tuples: ("Int", n) ("Float", x) ("Bool", b) ("String", s).
`binop` returns a value or raises GardenError(kind).
"""
from __future__ import annotations

import math

MIN = -(2 ** 63)
MAX = 2 ** 63 - 1


class GardenError(Exception):
    def __init__(self, kind, detail=""):
        super().__init__(kind)
        self.kind = kind
        self.detail = detail


def wrap(n: int) -> int:
    n &= (1 << 64) - 1
    return n - (1 << 64) if n >= (1 << 63) else n


INT_OPS = ["+", "-", "*", "/", "%", "**", "<", "<=", ">", ">=", "&", "|"]
FLOAT_OPS = ["+.", "-.", "*.", "/."]
BOOL_OPS = ["&&", "||"]
EQ_OPS = ["==", "!="]
STR_OPS = ["^"]
ALL_OPS = INT_OPS + FLOAT_OPS + BOOL_OPS + EQ_OPS + STR_OPS
assert len(ALL_OPS) == 21


def type_of(v):
    return v[0]


def int_op(op: str, a: int, b: int):
    if op == "+":
        return ("Int", wrap(a + b))
    if op == "-":
        return ("Int", wrap(a - b))
    if op == "*":
        return ("Int", wrap(a * b))
    if op == "/":
        if b == 0:
            raise GardenError("div-by-zero")
        q = abs(a) // abs(b)
        if (a < 0) != (b < 0):
            q = -q
        if q > MAX or q < MIN:
            raise GardenError("unrepresentable")
        return ("Int", q)
    if op == "%":
        if b == 0:
            raise GardenError("rem-by-zero")
        return ("Int", a % abs(b))  # Euclidean: 0 <= r < |b|
    if op == "**":
        if b < 0:
            raise GardenError("negative-exponent")
        if a in (0, 1):
            r = a if b > 0 else 1
        elif a == -1:
            r = 1 if b % 2 == 0 else -1
        elif b > 64:
            raise GardenError("exponent-overflow")
        else:
            r = a ** b
        if r > MAX or r < MIN:
            raise GardenError("exponent-overflow")
        return ("Int", r)
    if op == "<":
        return ("Bool", a < b)
    if op == "<=":
        return ("Bool", a <= b)
    if op == ">":
        return ("Bool", a > b)
    if op == ">=":
        return ("Bool", a >= b)
    if op == "&":
        return ("Int", wrap(a & b))
    if op == "|":
        return ("Int", wrap(a | b))
    raise ValueError(op)


def float_op(op: str, a: float, b: float):
    if op == "+.":
        return ("Float", a + b)
    if op == "-.":
        return ("Float", a - b)
    if op == "*.":
        return ("Float", a * b)
    if op == "/.":
        if b == 0.0:
            raise GardenError("div-by-zero")
        return ("Float", a / b)
    raise ValueError(op)


def binop(op: str, l, r):
    if op in INT_OPS:
        if l[0] != "Int" or r[0] != "Int":
            raise GardenError("type")
        return int_op(op, l[1], r[1])
    if op in FLOAT_OPS:
        if l[0] != "Float" or r[0] != "Float":
            raise GardenError("type")
        return float_op(op, l[1], r[1])
    if op in BOOL_OPS:
        if l[0] != "Bool" or r[0] != "Bool":
            raise GardenError("type")
        return ("Bool", (l[1] and r[1]) if op == "&&" else (l[1] or r[1]))
    if op in STR_OPS:
        if l[0] != "String" or r[0] != "String":
            raise GardenError("type")
        return ("String", l[1] + r[1])
    if op == "==":
        return ("Bool", l == r)
    if op == "!=":
        return ("Bool", l != r)
    raise ValueError(op)


def int_lit(n: int) -> str:
    """Source text for an integer value, always safe as an operand."""
    if n == MIN:
        return "(-9223372036854775807 - 1)"
    if n < 0:
        return f"({n})"
    return str(n)


def float_lit(x: float) -> str:
    from decimal import Decimal
    s = format(Decimal(x), "f")
    if "." not in s:
        s += ".0"
    if s.startswith("-"):
        return f"({s})"
    return s


def lit(v) -> str:
    t, x = v
    if t == "Int":
        return int_lit(x)
    if t == "Float":
        return float_lit(x)
    if t == "Bool":
        return "True" if x else "False"
    if t == "String":
        return '"' + x.replace("\\", "\\\\").replace('"', '\\"').replace("\n", "\\n") + '"'
    raise ValueError(t)


def show(v) -> str:
    """Expected `string_repr` text for Int/Bool/String values (floats are compared numerically)."""
    t, x = v
    if t == "Int":
        return str(x)
    if t == "Bool":
        return "True" if x else "False"
    if t == "String":
        return '"' + x.replace("\\", "\\\\").replace('"', '\\"').replace("\n", "\\n") + '"'
    raise ValueError(t)


ERR_PATTERNS = {
    "div-by-zero": r"Tried to divide .* by zero",
    "rem-by-zero": r"remainder of dividing .* by zero",
    "negative-exponent": r"negative power",
    "exponent-overflow": r"(Integer overflow on raising to the power|Exponent is too large)",
    "unrepresentable": r"(overflow|not representable|too large)",
    "type": r"Expected `\w+` but .* has type",
}
