"""Running sandboxed commands (`playground-run`, `sandboxed-test`) in a monitored scratch directory."""
from __future__ import annotations

import hashlib
import json
import os
import signal
import stat
import subprocess
import time

from .core import GARDEN

STDIN_TOKEN = "STDIN-CANARY-7f3a91"


def make_arena(ctx) -> str:
    d = ctx.scratch.dir()
    with open(os.path.join(d, "canary_in.txt"), "w") as f:
        f.write("canary file content\n")
    os.makedirs(os.path.join(d, "canary_dir"))
    with open(os.path.join(d, "canary_dir", "inner.txt"), "w") as f:
        f.write("inner\n")
    bind = os.path.join(d, "bin")
    os.makedirs(bind)
    for name in ("canary_cmd", "true", "echo", "ls", "sh"):
        p = os.path.join(bind, name)
        with open(p, "w") as f:
            f.write("#!/bin/sh\n/usr/bin/touch \"%s\"\n" % os.path.join(d, "PROCESS_STARTED_MARKER"))
        os.chmod(p, os.stat(p).st_mode | stat.S_IEXEC | stat.S_IXGRP | stat.S_IXOTH)
    return d


def snapshot(d: str) -> dict:
    out = {}
    for root, dirs, files in os.walk(d):
        for n in dirs:
            out[os.path.relpath(os.path.join(root, n), d) + "/"] = "dir"
        for n in files:
            p = os.path.join(root, n)
            try:
                with open(p, "rb") as f:
                    out[os.path.relpath(p, d)] = hashlib.blake2b(f.read(), digest_size=8).hexdigest()
            except OSError:
                out[os.path.relpath(p, d)] = "unreadable"
    return out


class SRun:
    def __init__(self, rc, out, err, timed_out, wall):
        self.rc, self.out, self.err, self.timed_out, self.wall = rc, out, err, timed_out, wall

    @property
    def crashed(self):
        return (not self.timed_out) and (self.rc == 101 or (self.rc is not None and self.rc < 0) or self.rc == 134
                                         or "panicked at" in self.err or "has overflowed its stack" in self.err)

    def json_lines(self):
        vals, bad = [], []
        for line in self.out.splitlines():
            if not line.strip():
                continue
            try:
                vals.append(json.loads(line))
            except json.JSONDecodeError:
                bad.append(line)
        return vals, bad


def run_sandboxed(args, cwd, stdin_mode="token", timeout=20.0) -> SRun:
    """stdin_mode: 'token' = a pipe holding STDIN_TOKEN then closed; 'open' = a pipe that is never written nor
    closed (a program that reads stdin blocks forever); 'null' = /dev/null."""
    env = dict(os.environ)
    env["PATH"] = os.path.join(cwd, "bin") + os.pathsep + env.get("PATH", "")
    env["NO_COLOR"] = "1"
    env["RUST_BACKTRACE"] = "0"
    env.pop("VERBOSE", None)
    t0 = time.time()
    # The child gets the read end of a pipe whose write end we keep: 'token' writes the token and closes it,
    # 'open' never writes nor closes it (until the child is gone). Output is always drained by communicate().
    rfd = wfd = None
    if stdin_mode == "null":
        stdin = subprocess.DEVNULL
    else:
        rfd, wfd = os.pipe()
        stdin = rfd
    p = subprocess.Popen([GARDEN] + list(args), cwd=cwd, env=env, stdin=stdin,
                         stdout=subprocess.PIPE, stderr=subprocess.PIPE, start_new_session=True)
    if rfd is not None:
        os.close(rfd)
    if stdin_mode == "token":
        try:
            os.write(wfd, (STDIN_TOKEN + "\n").encode())
        except OSError:
            pass        # the child has already exited and closed its end
        os.close(wfd)
        wfd = None
    try:
        out, err = p.communicate(timeout=timeout)
        to = False
    except subprocess.TimeoutExpired:
        try:
            os.killpg(p.pid, signal.SIGKILL)
        except OSError:
            pass
        try:
            out, err = p.communicate(timeout=5)
        except Exception:
            out, err = b"", b""
        to = True
    finally:
        if wfd is not None:
            os.close(wfd)
    return SRun(p.returncode, out.decode("utf-8", "replace"), err.decode("utf-8", "replace"), to, time.time() - t0)
