"""Driving the real `garden nrepl` TCP server: bencode, server process, client with a reader thread."""
from __future__ import annotations

import os
import signal
import socket
import subprocess
import threading
import time

from .core import GARDEN


def enc(x) -> bytes:
    if isinstance(x, bool):
        return enc(int(x))
    if isinstance(x, int):
        return b"i%de" % x
    if isinstance(x, str):
        b = x.encode("utf-8")
        return b"%d:" % len(b) + b
    if isinstance(x, bytes):
        return b"%d:" % len(x) + x
    if isinstance(x, list):
        return b"l" + b"".join(enc(i) for i in x) + b"e"
    if isinstance(x, dict):
        return b"d" + b"".join(enc(k) + enc(v) for k, v in sorted(x.items())) + b"e"
    raise TypeError(type(x))


class Incomplete(Exception):
    pass


def dec(buf: bytes, i: int = 0):
    """-> (value, next index); raises Incomplete when the buffer ends inside a value, ValueError on bad data"""
    if i >= len(buf):
        raise Incomplete()
    c = buf[i:i + 1]
    if c == b"i":
        j = buf.find(b"e", i)
        if j < 0:
            raise Incomplete()
        return int(buf[i + 1:j]), j + 1
    if c == b"l":
        i += 1
        out = []
        while True:
            if i >= len(buf):
                raise Incomplete()
            if buf[i:i + 1] == b"e":
                return out, i + 1
            v, i = dec(buf, i)
            out.append(v)
    if c == b"d":
        i += 1
        out = {}
        while True:
            if i >= len(buf):
                raise Incomplete()
            if buf[i:i + 1] == b"e":
                return out, i + 1
            k, i = dec(buf, i)
            v, i = dec(buf, i)
            out[k] = v
    if c.isdigit():
        j = buf.find(b":", i)
        if j < 0:
            raise Incomplete()
        n = int(buf[i:j])
        if j + 1 + n > len(buf):
            raise Incomplete()
        return buf[j + 1:j + 1 + n].decode("utf-8", "replace"), j + 1 + n
    raise ValueError(f"bad bencode at {i}: {buf[i:i + 20]!r}")


class Server:
    def __init__(self, cwd: str, delays: dict = None):
        self.cwd = cwd
        self.proc = None
        self.port = None
        self.delays = delays or {}

    def start(self, timeout=15.0):
        pf = os.path.join(self.cwd, ".nrepl-port")
        if os.path.exists(pf):
            os.remove(pf)
        env = dict(os.environ)
        env["NO_COLOR"] = "1"
        env["RUST_BACKTRACE"] = "0"
        if self.delays:
            # schedule perturbation points compiled in under cfg(wilfred_garden_verif)
            env["GDN_VERIF_DELAYS"] = ",".join(f"{k}={v}" for k, v in sorted(self.delays.items()))
        else:
            env.pop("GDN_VERIF_DELAYS", None)
        self.err_path = os.path.join(self.cwd, "nrepl.stderr")
        self.errf = open(self.err_path, "wb")
        self.proc = subprocess.Popen([GARDEN, "nrepl", "--port", "0"], cwd=self.cwd, env=env, stdin=subprocess.DEVNULL,
                                     stdout=self.errf, stderr=self.errf, start_new_session=True)
        t0 = time.time()
        while time.time() - t0 < timeout:
            if self.proc.poll() is not None:
                break
            try:
                txt = open(pf).read().strip()
                if txt:
                    self.port = int(txt)
                    return True
            except (OSError, ValueError):
                pass
            time.sleep(0.01)
        return False

    def alive(self):
        return self.proc is not None and self.proc.poll() is None

    def stderr_text(self):
        try:
            self.errf.flush()
            return open(self.err_path, "rb").read().decode("utf-8", "replace")
        except OSError:
            return ""

    def stop(self):
        if self.proc is not None:
            try:
                os.killpg(self.proc.pid, signal.SIGKILL)
            except OSError:
                pass
            try:
                self.proc.wait(timeout=5)
            except Exception:
                pass
        try:
            self.errf.close()
        except Exception:
            pass


class Client:
    """messages: list of (monotonic time, dict) in arrival order; per-id bookkeeping is kept by the reader thread so
    that waiting costs nothing however much output a looping eval floods the socket with"""

    def __init__(self, port: int):
        self.sock = socket.create_connection(("127.0.0.1", port), timeout=10)
        self.sock.settimeout(None)
        self.messages = []
        self.by_id = {}
        self.done = set()
        self.cond = threading.Condition()
        self.lock = self.cond
        self.bad = None
        self.closed = False
        self.t = threading.Thread(target=self._read, daemon=True)
        self.t.start()

    def _read(self):
        buf = b""
        while True:
            try:
                chunk = self.sock.recv(1 << 20)
            except OSError:
                break
            if not chunk:
                break
            buf += chunk
            i = 0
            new = []
            while True:
                try:
                    v, j = dec(buf, i)
                except Incomplete:
                    break
                except ValueError as e:
                    self.bad = str(e)
                    i = len(buf)
                    break
                new.append(v)
                i = j
            buf = buf[i:]
            if new:
                now = time.monotonic()
                with self.cond:
                    for v in new:
                        self.messages.append((now, v))
                        if isinstance(v, dict):
                            i_ = v.get("id")
                            self.by_id.setdefault(i_, []).append(v)
                            if "done" in (v.get("status") or []):
                                self.done.add(i_)
                    self.cond.notify_all()
        with self.cond:
            self.closed = True
            self.cond.notify_all()

    def send(self, msg: dict):
        self.sock.sendall(enc(msg))

    def snapshot(self):
        with self.cond:
            return list(self.messages)

    def msgs_of(self, i):
        with self.cond:
            return list(self.by_id.get(i, []))

    def wait_done(self, ids, timeout: float):
        """wait until every id in ids has a message with status done"""
        ids = set(ids)
        end = time.monotonic() + timeout
        with self.cond:
            while not ids <= self.done:
                left = end - time.monotonic()
                if left <= 0 or self.closed:
                    return ids <= self.done
                self.cond.wait(min(left, 0.5))
            return True

    def wait_msg(self, i, pred, timeout: float):
        """wait until some message with id i satisfies pred"""
        end = time.monotonic() + timeout
        seen = 0
        with self.cond:
            while True:
                lst = self.by_id.get(i, [])
                for m in lst[seen:]:
                    if pred(m):
                        return True
                seen = len(lst)
                left = end - time.monotonic()
                if left <= 0 or self.closed:
                    return False
                self.cond.wait(min(left, 0.5))

    def wait_for(self, pred, timeout: float):
        """wait until pred(list of dicts) is true (generic, costs a copy of the message list per poll); -> bool"""
        t0 = time.monotonic()
        while time.monotonic() - t0 < timeout:
            if pred([m for _, m in self.snapshot()]):
                return True
            if self.closed:
                return pred([m for _, m in self.snapshot()])
            time.sleep(0.02)
        return False

    def close(self):
        try:
            self.sock.shutdown(socket.SHUT_RDWR)
        except OSError:
            pass
        try:
            self.sock.close()
        except OSError:
            pass


DELAY_POINTS = ["flush_mid", "dequeue", "after_reset", "interrupt", "before_done"]


def gen_delays(r):
    """a random schedule perturbation: each point is left alone or delayed by 2 / 20 / 80 ms"""
    d = {}
    if r.int(0, 3) == 0:
        return d
    for p in DELAY_POINTS:
        if r.int(0, 2) == 0:
            d[p] = r.choice([2, 20, 80])
    return d


def done_ids(msgs):
    return [m.get("id") for m in msgs if isinstance(m, dict) and "done" in (m.get("status") or [])]
