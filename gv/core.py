"""Core of the garden verification harness (property-based testing / fuzzing).

Everything here is shared infrastructure: building the system under test from
/repo's current working tree with hooks on, running the real `garden` binary
(CLI observation) or the guarded `verif-hook` worker (hook observation), the
sharded Hypothesis engine, exhaustive enumeration, evidence writing and the
known-findings filter.
"""
from __future__ import annotations

import hashlib
import json
import multiprocessing as mp
import os
import re
import shutil
import signal
import subprocess
import sys
import tempfile
import time
import traceback
from dataclasses import dataclass, field
from typing import Any, Callable, Iterable, Optional

VERIF = os.path.dirname(os.path.dirname(os.path.abspath(__file__)))
REPO = os.environ.get("GV_REPO", "/repo")
TARGET_DIR = os.path.join(VERIF, ".build", "target")
GARDEN = os.path.join(TARGET_DIR, "debug", "garden")
GUARD = "wilfred_garden_verif"
NCPU = int(os.environ.get("GV_JOBS", str(min(16, os.cpu_count() or 4))))

EXIT_OK, EXIT_VIOLATION, EXIT_INFRA = 0, 1, 2
COLLECT = os.environ.get("GV_COLLECT") == "1"


# --------------------------------------------------------------------------
# Build
# --------------------------------------------------------------------------

def build_env() -> dict:
    env = dict(os.environ)
    env.update(
        CARGO_TARGET_DIR=TARGET_DIR,
        RUSTFLAGS=f"--cfg {GUARD}",
        CARGO_PROFILE_DEV_OPT_LEVEL="1",
        CARGO_NET_OFFLINE="true",
    )
    return env


def build_sut(verbose: bool = False) -> None:
    """(Re)build /repo's current working tree with hooks on. Exit 2 on failure."""
    os.makedirs(TARGET_DIR, exist_ok=True)
    t0 = time.time()
    p = subprocess.run(
        ["cargo", "build", "--offline", "--bin", "garden"],
        cwd=REPO, env=build_env(), stdout=subprocess.PIPE, stderr=subprocess.STDOUT, text=True,
    )
    if p.returncode != 0:
        sys.stdout.write(p.stdout[-6000:])
        print(f"INFRA: build of {REPO} failed (exit {p.returncode}); inconclusive")
        sys.exit(EXIT_INFRA)
    if verbose:
        print(f"build ok in {time.time() - t0:.1f}s")


# --------------------------------------------------------------------------
# Running the real binary
# --------------------------------------------------------------------------

@dataclass
class Run:
    rc: int
    out: str
    err: str
    timed_out: bool = False

    @property
    def crashed(self) -> bool:
        return (not self.timed_out) and (self.rc == 101 or self.rc < 0 or self.rc == 134
                                         or "panicked at" in self.err
                                         or "has overflowed its stack" in self.err)

    def crash_sig(self) -> str:
        return panic_signature(self.err, self.rc)


_PANIC_RE = re.compile(r"panicked at ([^\n:]+:\d+)(?::\d+)?:\n([^\n]*)")


def norm_panic_msg(msg: str) -> str:
    # keep the generic head of the message; drop anything that quotes the input
    msg = re.split(r"[`'\"]", msg, maxsplit=1)[0]
    msg = re.sub(r"\d+", "N", msg)
    return msg.strip()[:80]


def panic_signature(stderr: str, rc: int = 0) -> str:
    if "has overflowed its stack" in stderr:
        return "stack-overflow"
    if "memory allocation of" in stderr and "failed" in stderr:
        return "out-of-memory"
    m = _PANIC_RE.search(stderr)
    if m:
        return f"panic {m.group(1)}: {norm_panic_msg(m.group(2))}"
    if rc < 0:
        return f"signal {-rc}"
    return f"exit {rc}"


def hook_panic_signature(p: dict) -> str:
    return f"panic {p.get('location')}: {norm_panic_msg(p.get('message', ''))}"


MEMORY_LIMIT_BYTES = 2 << 30


# every garden child gets an address-space limit, so that a generated program that builds an enormous value fails
# with an allocation error (reported as `out-of-memory`, never as a property violation) instead of taking the machine's
# memory.  The limit is applied by util-linux `prlimit` rather than a preexec_fn: a preexec_fn makes Python fork the
# whole (large) shard process for every child, which made the process-heavy checks three times slower.
MEMLIMIT_PREFIX = (["/usr/bin/prlimit", f"--as={MEMORY_LIMIT_BYTES}"] if os.path.exists("/usr/bin/prlimit") else [])


def run_garden(args: list, stdin: Optional[str] = None, cwd: Optional[str] = None,
               timeout: float = 20.0, env: Optional[dict] = None, binary: bool = False) -> Run:
    e = dict(os.environ)
    e.pop("VERBOSE", None)
    e["NO_COLOR"] = "1"
    e["RUST_BACKTRACE"] = "0"
    if env:
        e.update(env)
    try:
        p = subprocess.Popen(MEMLIMIT_PREFIX + [GARDEN] + [str(a) for a in args], cwd=cwd, env=e,
                             stdin=subprocess.PIPE if stdin is not None else subprocess.DEVNULL,
                             stdout=subprocess.PIPE, stderr=subprocess.PIPE,
                             start_new_session=True)
    except OSError as ex:
        return Run(127, "", f"spawn failed: {ex}")
    try:
        out, err = p.communicate(stdin.encode("utf-8") if stdin is not None else None, timeout=timeout)
        to = False
    except subprocess.TimeoutExpired:
        try:
            os.killpg(p.pid, signal.SIGKILL)
        except OSError:
            pass
        out, err = p.communicate()
        to = True
    return Run(p.returncode, out.decode("utf-8", "replace"), err.decode("utf-8", "replace"), to)


class Scratch:
    """A per-process scratch directory, removed at exit."""

    def __init__(self):
        self.root = tempfile.mkdtemp(prefix="gv-")
        self.n = 0

    def file(self, content: str, name: Optional[str] = None, sub: Optional[str] = None) -> str:
        d = self.root if sub is None else os.path.join(self.root, sub)
        os.makedirs(d, exist_ok=True)
        if name is None:
            self.n += 1
            name = f"f{self.n}.gdn"
        path = os.path.join(d, name)
        with open(path, "w", encoding="utf-8", newline="") as f:
            f.write(content)
        return path

    def dir(self) -> str:
        self.n += 1
        d = os.path.join(self.root, f"d{self.n}")
        os.makedirs(d)
        return d

    def cleanup(self):
        shutil.rmtree(self.root, ignore_errors=True)


# --------------------------------------------------------------------------
# Hook worker
# --------------------------------------------------------------------------

class HookDied(Exception):
    def __init__(self, rc, err):
        super().__init__(f"hook worker died rc={rc}")
        self.rc = rc
        self.err = err


class Hook:
    """A long-lived `garden verif-hook` worker (JSON lines)."""

    def __init__(self):
        self.p = None
        self.errf = None

    def start(self):
        self.errf = tempfile.TemporaryFile()
        e = dict(os.environ)
        e.pop("VERBOSE", None)
        e["RUST_BACKTRACE"] = "0"
        self.p = subprocess.Popen([GARDEN, "verif-hook"], stdin=subprocess.PIPE, stdout=subprocess.PIPE,
                                  stderr=self.errf, env=e)

    def call(self, req: dict, timeout: float = 60.0) -> dict:
        if self.p is None or self.p.poll() is not None:
            self.start()
        line = json.dumps(req) + "\n"
        try:
            self.p.stdin.write(line.encode("utf-8"))
            self.p.stdin.flush()
            old = signal.signal(signal.SIGALRM, _alarm)
            signal.setitimer(signal.ITIMER_REAL, timeout)
            try:
                reply = self.p.stdout.readline()
            finally:
                signal.setitimer(signal.ITIMER_REAL, 0)
                signal.signal(signal.SIGALRM, old)
        except (BrokenPipeError, OSError):
            reply = b""
        except _Alarm:
            self.p.kill()
            self.p.wait()
            self.p = None
            raise HookDied("timeout", "hook timeout")
        if not reply:
            rc = self.p.wait()
            self.errf.seek(0)
            err = self.errf.read().decode("utf-8", "replace")
            self.p = None
            raise HookDied(rc, err)
        return json.loads(reply)

    def close(self):
        if self.p is not None and self.p.poll() is None:
            try:
                self.p.stdin.close()
                self.p.wait(timeout=5)
            except Exception:
                self.p.kill()
        self.p = None


class _Alarm(Exception):
    pass


def _alarm(signum, frame):
    raise _Alarm()


# --------------------------------------------------------------------------
# Results of one case
# --------------------------------------------------------------------------

@dataclass
class Res:
    """Outcome of checking one generated case."""
    ok: bool = True
    nontrivial: bool = False
    classes: tuple = ()
    signature: str = ""         # root-cause signature when not ok
    detail: str = ""            # human readable explanation when not ok
    inconclusive: bool = False  # watchdog etc: neither pass nor violation
    extra: int = 1              # number of evaluations this case stands for


def fail(signature: str, detail: str, nontrivial=True, classes=()) -> Res:
    return Res(ok=False, nontrivial=nontrivial, classes=tuple(classes), signature=signature, detail=detail)


# --------------------------------------------------------------------------
# Known findings
# --------------------------------------------------------------------------

def load_known(pid: str) -> list:
    path = os.path.join(VERIF, "known_findings.json")
    if not os.path.exists(path):
        return []
    with open(path) as f:
        data = json.load(f)
    return [e for e in data.get("findings", []) if e.get("property") == pid and e.get("status") == "known"]


def match_known(known: list, signature: str) -> Optional[dict]:
    for e in known:
        if e.get("signature") == signature:
            return e
        rx = e.get("signature_regex")
        if rx and re.fullmatch(rx, signature):
            return e
    return None


# --------------------------------------------------------------------------
# Sub-checks
# --------------------------------------------------------------------------

@dataclass
class Sub:
    """One sub-check of a property.

    gen:   function(R) -> case (JSON-serialisable) for random generation, or None
    enum:  function(tier) -> iterable of cases for exhaustive enumeration, or None
    check: function(case, ctx) -> Res
    cases: {'quick': n, 'thorough': n} number of random cases
    """
    name: str
    check: Callable
    gen: Optional[Callable] = None
    enum: Optional[Callable] = None
    cases: dict = field(default_factory=lambda: {"quick": 200, "thorough": 2000})
    shards: Optional[int] = None
    show: Optional[Callable] = None  # case -> short string for samples


class Ctx:
    """Per-shard context handed to checks."""

    def __init__(self, pid: str, tier: str, strict: bool = False):
        self.pid = pid
        self.tier = tier
        self.strict = strict  # replay mode: known findings are not tolerated silently
        self.scratch = Scratch()
        self._hook = None

    @property
    def hook(self) -> Hook:
        if self._hook is None:
            self._hook = Hook()
        return self._hook

    def hook_call(self, req: dict, timeout: float = 60.0) -> dict:
        """Call the hook; a worker death is returned as {'died': signature}."""
        try:
            return self.hook.call(req, timeout)
        except HookDied as d:
            if d.rc == "timeout":
                return {"died": "timeout", "timeout": True}
            return {"died": panic_signature(d.err, d.rc if isinstance(d.rc, int) else 0)}

    def close(self):
        if self._hook is not None:
            self._hook.close()
        self.scratch.cleanup()


class R:
    """Random source backed by Hypothesis draws (so shrinking and replay work).

    Smaller drawn integers mean simpler choices: put the simplest alternative
    first in every `choice`.
    """

    def __init__(self, data):
        from hypothesis import strategies as st
        self._d = data
        self._st = st

    def int(self, lo: int, hi: int) -> int:
        if hi <= lo:
            return lo
        return self._d.draw(self._st.integers(lo, hi))

    def below(self, n: int) -> int:
        return self.int(0, n - 1)

    def bool(self, p: float = 0.5) -> bool:
        # True with probability ~p; False is the simple value.
        return self.int(0, 999) >= int(1000 * (1 - p))

    def choice(self, seq):
        return seq[self.int(0, len(seq) - 1)]

    def weighted(self, pairs):
        total = sum(w for w, _ in pairs)
        k = self.int(0, total - 1)
        for w, x in pairs:
            if k < w:
                return x
            k -= w
        return pairs[-1][1]

    def sample(self, seq, k):
        seq = list(seq)
        out = []
        for _ in range(min(k, len(seq))):
            out.append(seq.pop(self.int(0, len(seq) - 1)))
        return out

    def text(self, alphabet: str, lo: int, hi: int) -> str:
        n = self.int(lo, hi)
        return "".join(alphabet[self.int(0, len(alphabet) - 1)] for _ in range(n))

    def draw(self, strategy):
        return self._d.draw(strategy)


def splitmix(x: int) -> int:
    x = (x + 0x9E3779B97F4A7C15) & 0xFFFFFFFFFFFFFFFF
    z = x
    z = ((z ^ (z >> 30)) * 0xBF58476D1CE4E5B9) & 0xFFFFFFFFFFFFFFFF
    z = ((z ^ (z >> 27)) * 0x94D049BB133111EB) & 0xFFFFFFFFFFFFFFFF
    return z ^ (z >> 31)


def fingerprint(case) -> str:
    return hashlib.blake2b(json.dumps(case, sort_keys=True, default=str).encode(), digest_size=8).hexdigest()


def short(case, show=None, limit=700) -> Any:
    if show is not None:
        try:
            s = show(case)
        except Exception:
            s = repr(case)
    else:
        s = case if isinstance(case, (str, int, float)) else json.dumps(case, default=str)
    if isinstance(s, str) and len(s) > limit:
        s = s[:limit] + f"...[{len(s)} chars]"
    return s


# --------------------------------------------------------------------------
# Shard worker
# --------------------------------------------------------------------------

class _Stats:
    def __init__(self):
        self.evaluations = 0
        self.nontrivial = set()
        self.classes = {}
        self.samples = []
        self.excluded_known = {}
        self.known_examples = {}
        self.inconclusive = 0
        self.inconclusive_examples = []
        self.failures = []  # list of dict(signature, detail, case, sub)
        self.collected = {}

    def record(self, sub: Sub, case, res: Res):
        self.evaluations += res.extra
        for c in res.classes:
            self.classes[c] = self.classes.get(c, 0) + 1
        if res.nontrivial:
            fp = fingerprint(case)
            if fp not in self.nontrivial:
                self.nontrivial.add(fp)
                if len(self.samples) < 3:
                    self.samples.append({"sub": sub.name, "case": short(case, sub.show)})
        if res.inconclusive:
            self.inconclusive += 1
            if len(self.inconclusive_examples) < 3:
                self.inconclusive_examples.append({"sub": sub.name, "case": short(case, sub.show), "detail": res.detail[:300]})

    def to_dict(self):
        return dict(evaluations=self.evaluations, nontrivial=sorted(self.nontrivial), classes=self.classes,
                    samples=self.samples, excluded_known=self.excluded_known, known_examples=self.known_examples,
                    inconclusive=self.inconclusive, inconclusive_examples=self.inconclusive_examples,
                    failures=self.failures + [v[1] for v in self.collected.values()])


def _shard_main(modname: str, subname: str, tier: str, seed: int, shard: int, nshards: int, q):
    try:
        import importlib
        mod = importlib.import_module(modname)
        sub = next(s for s in mod.SUBS if s.name == subname)
        pid = mod.PROPERTY_ID
        known = load_known(pid)
        ctx = Ctx(pid, tier)
        stats = _Stats()
        try:
            if sub.enum is not None:
                _run_enum(sub, ctx, stats, known, tier, shard, nshards)
            if sub.gen is not None:
                n = sub.cases.get(tier, 0)
                n_here = n // nshards + (1 if shard < n % nshards else 0)
                if n_here > 0:
                    _run_hyp(sub, ctx, stats, known, n_here, splitmix(seed * 1000003 + shard * 7919 + _name_salt(pid + subname)))
        finally:
            ctx.close()
        q.put(("ok", shard, stats.to_dict()))
    except BaseException as ex:  # infrastructure failure in the shard
        q.put(("infra", shard, "".join(traceback.format_exception(type(ex), ex, ex.__traceback__))[-4000:]))


def _name_salt(s: str) -> int:
    return int(hashlib.blake2b(s.encode(), digest_size=4).hexdigest(), 16)


def _normalise(res: Res) -> Res:
    """a garden child that ran into the address-space limit (see _limit_memory) exhausted a resource of this machine;
    that is never a property violation, whatever the property module made of the abort"""
    if (not res.ok) and "out-of-memory" in (res.signature or ""):
        return Res(ok=True, inconclusive=True, classes=res.classes,
                   detail="a garden process hit the memory limit: " + res.detail[:200])
    return res


def _handle(sub: Sub, case, res: Res, stats: _Stats, known) -> bool:
    """Record a result. Returns True if it is an unlisted failure."""
    if res.ok or res.inconclusive:
        stats.record(sub, case, res)
        return False
    k = match_known(known, res.signature)
    if k is None and COLLECT:
        # triage mode: keep searching past every failure, remember one (smallest) example per signature
        stats.record(sub, case, res)
        cur = stats.collected.get(res.signature)
        size = len(json.dumps(case, default=str))
        if cur is None or size < cur[0]:
            stats.collected[res.signature] = (size, dict(sub=sub.name, signature=res.signature,
                                                         detail=res.detail[:3000], case=case))
        return False
    if k is not None:
        stats.record(sub, case, res)
        sig = k["signature"] if "signature" in k else k["signature_regex"]
        stats.excluded_known[sig] = stats.excluded_known.get(sig, 0) + 1
        stats.known_examples.setdefault(sig, short(case, sub.show, 300))
        return False
    return True


def _run_enum(sub, ctx, stats, known, tier, shard, nshards):
    seen_sigs = set()
    for i, case in enumerate(sub.enum(tier)):
        if i % nshards != shard:
            continue
        res = _normalise(sub.check(case, ctx))
        if _handle(sub, case, res, stats, known):
            stats.record(sub, case, res)
            if res.signature not in seen_sigs and len(stats.failures) < 5:
                seen_sigs.add(res.signature)
                stats.failures.append(dict(sub=sub.name, signature=res.signature, detail=res.detail[:3000], case=case))


class _CaseFailed(Exception):
    pass


def _run_hyp(sub, ctx, stats, known, n, seed):
    from hypothesis import given, settings, seed as hseed, HealthCheck, Phase, strategies as st
    from hypothesis.errors import Flaky, FlakyFailure

    state = {"failed": False, "last": None}

    @settings(max_examples=n, database=None, deadline=None, derandomize=False,
              suppress_health_check=list(HealthCheck), phases=[Phase.generate, Phase.shrink],
              report_multiple_bugs=False, print_blob=False)
    @hseed(seed)
    @given(st.data())
    def t(data):
        case = sub.gen(R(data))
        res = _normalise(sub.check(case, ctx))
        if state["failed"]:
            # shrinking / final replay: do not count, only track the failure
            is_fail = (not res.ok) and (not res.inconclusive) and match_known(known, res.signature) is None
        else:
            is_fail = _handle(sub, case, res, stats, known)
            if is_fail:
                stats.record(sub, case, res)
                state["failed"] = True
        if is_fail:
            state["last"] = dict(sub=sub.name, signature=res.signature, detail=res.detail[:3000], case=case)
            raise _CaseFailed()

    try:
        t()
    except _CaseFailed:
        pass
    except (Flaky, FlakyFailure):
        if state["last"] is not None:
            state["last"]["detail"] += "\n[note: hypothesis reported flakiness while shrinking]"
    except BaseException as ex:
        if ex.__class__.__name__ in ("Flaky", "FlakyFailure", "FlakyReplay") and state["last"] is not None:
            pass
        elif state["last"] is None:
            raise
    if state["last"] is not None:
        stats.failures.append(state["last"])


# --------------------------------------------------------------------------
# Driver
# --------------------------------------------------------------------------

def run_property(mod, tier: str, seed: int) -> int:
    pid = mod.PROPERTY_ID
    t0 = time.time()
    known = load_known(pid)
    agg = _Stats()
    infra = []
    ctxm = mp.get_context("fork")
    for sub in mod.SUBS:
        nshards = sub.shards or NCPU
        n = sub.cases.get(tier, 0) if sub.gen is not None else 0
        if sub.enum is None and n == 0:
            continue
        if sub.enum is None:
            nshards = max(1, min(nshards, n))
        q = ctxm.Queue()
        procs = []
        for sh in range(nshards):
            p = ctxm.Process(target=_shard_main, args=(mod.__name__, sub.name, tier, seed, sh, nshards, q))
            p.start()
            procs.append(p)
        got = 0
        while got < nshards:
            try:
                kind, sh, payload = q.get(timeout=5)
            except Exception:
                if all(not p.is_alive() for p in procs) and q.empty():
                    infra.append(f"{sub.name}: {nshards - got} shard(s) died without reporting")
                    break
                continue
            got += 1
            if kind == "infra":
                infra.append(f"{sub.name} shard {sh}: {payload}")
                continue
            agg.evaluations += payload["evaluations"]
            agg.nontrivial.update(payload["nontrivial"])
            for k, v in payload["classes"].items():
                agg.classes[k] = agg.classes.get(k, 0) + v
            for s in payload["samples"]:
                if len(agg.samples) < 6:
                    agg.samples.append(s)
            for k, v in payload["excluded_known"].items():
                agg.excluded_known[k] = agg.excluded_known.get(k, 0) + v
            for k, v in payload["known_examples"].items():
                agg.known_examples.setdefault(k, v)
            agg.inconclusive += payload["inconclusive"]
            agg.inconclusive_examples.extend(payload["inconclusive_examples"][:2])
            agg.failures.extend(payload["failures"])
        for p in procs:
            p.join(timeout=10)
            if p.is_alive():
                p.kill()

    wall = time.time() - t0
    # de-duplicate failures by signature, smallest case first
    by_sig = {}
    for f in agg.failures:
        cur = by_sig.get(f["signature"])
        if cur is None or len(json.dumps(f["case"], default=str)) < len(json.dumps(cur["case"], default=str)):
            by_sig[f["signature"]] = f
    violations = list(by_sig.values())

    replay_paths = []
    for f in violations:
        d = os.path.join(VERIF, "replays", pid)
        os.makedirs(d, exist_ok=True)
        h = hashlib.blake2b(f["signature"].encode(), digest_size=5).hexdigest()
        path = os.path.join(d, f"fail-{f['sub']}-{h}.json")
        with open(path, "w") as fh:
            json.dump(dict(property=pid, sub=f["sub"], signature=f["signature"], detail=f["detail"],
                           case=f["case"], seed=seed, tier=tier), fh, indent=1, default=str)
        replay_paths.append(path)

    write_evidence(mod, tier, seed, agg, wall, len(violations), infra)

    for e in known:
        sig = e.get("signature") or e.get("signature_regex")
        cnt = agg.excluded_known.get(sig, 0)
        print(f"KNOWN-FINDING: property={pid} {e.get('description', sig)} [signature: {sig}; hit {cnt}x this run]")
    print(f"{pid} {tier}: evaluations={agg.evaluations} distinct_nontrivial={len(agg.nontrivial)} "
          f"inconclusive={agg.inconclusive} wall={wall:.1f}s")
    if violations:
        for f, path in zip(violations, replay_paths):
            print(f"--- {f['signature']}\n{f['detail'][:1500]}")
            print(f"VIOLATION property={pid} replay={path}")
        return EXIT_VIOLATION
    if infra:
        for m in infra:
            print("INFRA:", m)
        return EXIT_INFRA
    return EXIT_OK


def write_evidence(mod, tier, seed, agg: _Stats, wall, nviol, infra):
    pid = mod.PROPERTY_ID
    cov = dict(
        evaluations=agg.evaluations,
        distinct_nontrivial=len(agg.nontrivial),
        rule=mod.RULE,
        samples=agg.samples or [{"note": "no non-trivial sample recorded"}],
        classes=dict(sorted(agg.classes.items())),
        excluded_known=agg.excluded_known,
        known_examples=agg.known_examples,
        inconclusive=agg.inconclusive,
        inconclusive_examples=agg.inconclusive_examples[:4],
        exhaustive=bool(getattr(mod, "EXHAUSTIVE", False)),
        subchecks=[s.name for s in mod.SUBS],
    )
    extra = getattr(mod, "evidence_extra", None)
    if extra:
        cov.update(extra(tier))
    ev = dict(property_id=pid, tier=tier, seed=seed, level=mod.LEVEL, coverage=cov,
              assumptions=list(getattr(mod, "ASSUMPTIONS", [])), wall_s=round(wall, 2), violations=nviol)
    if infra:
        ev["coverage"]["infrastructure_problems"] = [m[:500] for m in infra]
    os.makedirs(os.path.join(VERIF, "evidence"), exist_ok=True)
    with open(os.path.join(VERIF, "evidence", f"{pid}.json"), "w") as f:
        json.dump(ev, f, indent=1, default=str)


def replay(mod, path: str) -> int:
    pid = mod.PROPERTY_ID
    with open(path) as f:
        rec = json.load(f)
    sub = next(s for s in mod.SUBS if s.name == rec["sub"])
    ctx = Ctx(pid, "quick", strict=True)
    try:
        res = _normalise(sub.check(rec["case"], ctx))
    finally:
        ctx.close()
    if res.inconclusive:
        print(f"replay inconclusive: {res.detail}")
        return EXIT_INFRA
    if res.ok:
        print(f"replay of {path}: property held")
        return EXIT_OK
    k = match_known(load_known(pid), res.signature)
    print(f"--- {res.signature}\n{res.detail[:3000]}")
    if k is not None:
        print(f"KNOWN-FINDING: property={pid} {k.get('description')} [signature: {res.signature}]")
        return EXIT_OK
    print(f"VIOLATION property={pid} replay={path}")
    return EXIT_VIOLATION
