"""Layout perturbation of parseable sources (for C17 / C18 / C23).

A perturbation only edits *existing* whitespace gaps, inserts comments into gaps that contain a newline, or
appends whole new statements. Soundness does not rest on knowing the parser's layout-sensitive rules: the
caller keeps a perturbed text only if the real parser gives it the same syntax tree as the base text.
"""
from __future__ import annotations

from . import text as T
from . import core as G

COMMENT_BODIES = ["c", "a=b", "x => y", "1, 2", "{", "}", "\"quoted\"", "é ☃ 😀", "let z = 1", "", "/ slash", "= = =",
                  "fun f() {", "arguments: none", "tab\there", ")=", ") = 1", "(", "]", "> ="]
GAPS = [" ", " ", "  ", "\n", "\n  ", "\n    ", "\n\n", " \t", "\n\t", "   \n"]
EXTRA_STATEMENTS = [
    'let ml_{n} = "first line\n  second line\n"',
    'let ml_{n} = "a\n\nb"',
    'let eq_{n} = "x = y"',
    'let uni_{n} = "é☃😀"  // trailing é',
    'let esc_{n} = "q\\"uote \\\\ back\\nslash"',
    'fun long_signature_{n}(first_parameter: Int, second_parameter: String, third_parameter: List<Int>, fourth_parameter: Option<String>): Int {{ first_parameter }}',
    'fun short_{n}(a: Int):Int {{ a }}',
    'let lst_{n} = [1,2,  3 ,4]',
    'let t_{n}: (Int,String) = (1 , "x")',
    'if True {{ 1 }} else if False {{ 2 }} else {{ 3 }}',
    'match Some(1) {{ Some(v_{n}) => v_{n}, None => 0 }}',
    'let d_{n} = Dict["a"=>1,"b" => 2]',
    'x_{n} += 1',
    'struct S_{n} {{ a: Int, b:String }}',
    'enum E_{n} {{ A_{n}, B_{n}(Int), }}',
    'test t_{n} {{ assert(1 == 1) }}',
    'method m_{n}(this: String, other:Int): Int {{ other }}',
    'import "./other_{n}.gdn" as o_{n}',
    '/// doc comment for f\nfun documented_{n}() {{}}',
    'while False {{ }}',
    'for i_{n} in [1] {{ i_{n} }}',
    '{{ 1 2 }}',
    'let (p_{n}, q_{n} ) = (1, 2)',
    'let (p_{n},\n  q_{n}\n)=(1, 2)',
    'let (p_{n}, q_{n} // )=\n  )=(1, 2)',
    'let (p_{n}, q_{n}, // ) = x\n)  =  (1, 2)',
    'let v_{n} // = 1\n  = 2',
    'let w_{n}: Int // )=\n  =3',
]


def base_source(r) -> str:
    """A parseable program: a repository test program or a generated one, plus a few extra statements."""
    k = r.int(0, 2)
    if k == 0:
        src = r.choice(T.corpus())["src"]
    else:
        knobs = G.Knobs(shadowing=True, annotations=r.choice(["full", "partial", "none"]), errors=True,
                        max_stmts=r.choice([3, 6]), max_funs=r.choice([0, 1, 2]), max_depth=2)
        _, src = G.generate(r, knobs)
    extra = []
    for i in range(r.int(0, 3)):
        extra.append(r.choice(EXTRA_STATEMENTS).format(n=i))
    if extra:
        if not src.endswith("\n"):
            src += "\n"
        src += "\n".join(extra) + "\n"
    return src


def perturb(r, src: str) -> str:
    toks = T.tokenize_rough(src)
    out = []
    prev_code = ""
    for t in toks:
        if t.isspace():
            if prev_code == "return":
                out.append(t)
                continue
            c = r.int(0, 9)
            if c <= 4:
                out.append(t)
            elif c <= 7:
                g = r.choice(GAPS)
                out.append(g)
            elif "\n" in t:
                # comment line(s) in a gap that already has a newline
                body = r.choice(COMMENT_BODIES)
                out.append("\n" + " " * r.int(0, 6) + "// " + body + "\n" + " " * r.int(0, 4))
            else:
                out.append(" // " + r.choice(COMMENT_BODIES) + "\n" + " " * r.int(0, 4))
        else:
            out.append(t)
            if not t.startswith("//"):
                prev_code = t
    s = "".join(out)
    c = r.int(0, 5)
    if c == 0:
        s = s.rstrip("\n")
    elif c == 1:
        s = s + "\n\n\n"
    elif c == 2:
        s = "\n\n" + s
    elif c == 3:
        s = s + "// trailing comment without newline"
    return s
