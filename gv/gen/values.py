"""G-value: values with literal syntax (C12/C13), their source expressions and their expected printed form.

Value model (Python):  ("Int", n) ("Float", x) ("Str", s) ("Bool", b) ("Unit",) ("List", [v..]) ("Tuple", [v..])
("Dict", [(key, v)..]) ("Some", v) ("None",) ("Ok", v) ("Err", v) ("Struct", name, [(field, v)..])
("Variant", name, payload-or-None)
"""
from __future__ import annotations

import math
import struct
from decimal import Decimal

PRELUDE = """struct Point { x: Int, label: String }
struct Wrap { inner: List<Int>, flag: Bool }
enum Shape { Dot, Circle(Int), Pair((Int, String)), Named(String) }
"""

MIN, MAX = -(2 ** 63), 2 ** 63 - 1

STR_ALPHABETS = [
    "ab ",
    "ab \"\\",
    "a\n\t\\\"",
    "aé☃😀 ",
    "a\r\n",
    "{}[]()=>,:.//",
    "".join(chr(c) for c in range(0x20, 0x7F)),
]


# ---- types: "Int" "Float" "Str" "Bool" "Unit" ("List",t) ("Tuple",[t..]) ("Dict",t) ("Option",t) ("Result",t,e)
#             ("Struct",name) ("Enum","Shape")

def gen_type(r, depth):
    if depth <= 0:
        return r.choice(["Int", "Float", "Str", "Bool", "Int", "Str"])
    k = r.int(0, 13)
    if k <= 1:
        return "Int"
    if k == 2:
        return "Float"
    if k <= 4:
        return "Str"
    if k == 5:
        return "Bool"
    if k == 6:
        return "Unit"
    if k == 7:
        return ("List", gen_type(r, depth - 1))
    if k == 8:
        n = r.choice([2, 2, 3, 1, 0])
        return ("Tuple", [gen_type(r, depth - 1) for _ in range(n)])
    if k == 9:
        return ("Dict", gen_type(r, depth - 1))
    if k == 10:
        return ("Option", gen_type(r, depth - 1))
    if k == 11:
        return ("Result", gen_type(r, depth - 1), r.choice(["Str", "Int"]))
    if k == 12:
        return ("Struct", r.choice(["Point", "Wrap"]))
    return ("Enum", "Shape")


def gen_int(r):
    k = r.int(0, 4)
    if k == 0:
        return r.int(-10, 10)
    if k == 1:
        return r.choice([MIN, MAX, MIN + 1, MAX - 1, 2 ** 31, -(2 ** 31), 2 ** 32, 0, -1])
    if k == 2:
        return r.int(MIN, MAX)
    return r.int(-1000000, 1000000)


def gen_float(r):
    k = r.int(0, 5)
    if k == 0:
        return r.choice([0.0, 1.0, -1.0, 0.5, 1.5, -2.5, 0.1, 100.0, 3.14159, 1e21, 1e-7, 123456789.0])
    if k == 1:
        return r.int(-100000, 100000) / r.choice([1, 2, 4, 8, 10, 100, 3, 7])
    if k == 2:
        return r.choice([5e-324, 2.2250738585072014e-308, 1.7976931348623157e308, -1.7976931348623157e308,
                         1e300, 1e-300, 9007199254740993.0, 0.30000000000000004])
    bits = r.int(0, (1 << 64) - 1)
    v = struct.unpack("<d", struct.pack("<Q", bits))[0]
    if not math.isfinite(v):
        return 2.5
    if v == 0.0:
        return 0.0
    return v


def gen_str(r):
    a = r.choice(STR_ALPHABETS)
    n = r.choice([0, 1, 2, 3, 5, 8])
    s = "".join(a[r.int(0, len(a) - 1)] for _ in range(n))
    if r.int(0, 9) == 0:
        s += "\\"
    return s


def gen_value(r, t, depth=3):
    if t == "Int":
        return ("Int", gen_int(r))
    if t == "Float":
        return ("Float", gen_float(r))
    if t == "Str":
        return ("Str", gen_str(r))
    if t == "Bool":
        return ("Bool", r.bool())
    if t == "Unit":
        return ("Unit",)
    k = t[0]
    if k == "List":
        n = r.choice([0, 1, 2, 3])
        return ("List", [gen_value(r, t[1], depth - 1) for _ in range(n)])
    if k == "Tuple":
        return ("Tuple", [gen_value(r, x, depth - 1) for x in t[1]])
    if k == "Dict":
        n = r.choice([0, 1, 2, 3])
        keys = []
        for _ in range(n):
            kk = gen_str(r)
            if kk not in keys:
                keys.append(kk)
        return ("Dict", [(kk, gen_value(r, t[1], depth - 1)) for kk in keys])
    if k == "Option":
        if r.bool(0.7):
            return ("Some", gen_value(r, t[1], depth - 1))
        return ("None",)
    if k == "Result":
        if r.bool(0.6):
            return ("Ok", gen_value(r, t[1], depth - 1))
        return ("Err", gen_value(r, t[2], depth - 1))
    if k == "Struct":
        if t[1] == "Point":
            return ("Struct", "Point", [("x", ("Int", gen_int(r))), ("label", ("Str", gen_str(r)))])
        return ("Struct", "Wrap", [("inner", ("List", [("Int", gen_int(r)) for _ in range(r.int(0, 3))])),
                                   ("flag", ("Bool", r.bool()))])
    if k == "Enum":
        c = r.int(0, 3)
        if c == 0:
            return ("Variant", "Dot", None)
        if c == 1:
            return ("Variant", "Circle", ("Int", gen_int(r)))
        if c == 2:
            return ("Variant", "Pair", ("Tuple", [("Int", gen_int(r)), ("Str", gen_str(r))]))
        return ("Variant", "Named", ("Str", gen_str(r)))
    raise ValueError(t)


# ---- rendering (expected `string_repr` output, written from the documented literal syntax)

def render_float(x: float) -> str:
    if x == 0.0:
        return "-0.0" if math.copysign(1.0, x) < 0 else "0.0"
    s = format(Decimal(repr(x)), "f")
    if "." not in s:
        s += ".0"
    return s


def render_str(s: str) -> str:
    return '"' + s.replace("\\", "\\\\").replace('"', '\\"').replace("\n", "\\n") + '"'


def render(v) -> str:
    k = v[0]
    if k == "Int":
        return str(v[1])
    if k == "Float":
        return render_float(v[1])
    if k == "Str":
        return render_str(v[1])
    if k == "Bool":
        return "True" if v[1] else "False"
    if k == "Unit":
        return "Unit"
    if k == "List":
        return "[" + ", ".join(render(x) for x in v[1]) + "]"
    if k == "Tuple":
        if len(v[1]) == 1:
            return "(" + render(v[1][0]) + ",)"
        return "(" + ", ".join(render(x) for x in v[1]) + ")"
    if k == "Dict":
        items = sorted(v[1], key=lambda kv: kv[0].encode("utf-8"))
        return "Dict[" + ", ".join(f"{render_str(kk)} => {render(x)}" for kk, x in items) + "]"
    if k == "Some":
        return f"Some({render(v[1])})"
    if k == "None":
        return "None"
    if k == "Ok":
        return f"Ok({render(v[1])})"
    if k == "Err":
        return f"Err({render(v[1])})"
    if k == "Struct":
        return v[1] + "{ " + ", ".join(f"{f}: {render(x)}" for f, x in v[2]) + " }"
    if k == "Variant":
        return v[1] if v[2] is None else f"{v[1]}({render(v[2])})"
    raise ValueError(v)


# ---- source expression that builds the value (independent of the printer: different spacing, exact decimals,
#      strings that cannot be written as one literal are assembled from pieces)

def src_float(x: float) -> str:
    if x == 0.0 and math.copysign(1.0, x) < 0:
        return "(-0.0)"
    s = format(Decimal(x), "f")
    if "." not in s:
        s += ".0"
    return f"({s})" if s.startswith("-") else s


def src_str(s: str) -> str:
    body = s.replace("\\", "\\\\").replace('"', '\\"').replace("\n", "\\n").replace("\t", "\\t")
    if s.endswith("\\"):
        # a literal cannot end in a backslash (the closing quote would be read as escaped): add a pad char and cut it
        n = len(s)
        return f'"{body} ".substring(0, {n})'
    return f'"{body}"'


def src(v) -> str:
    k = v[0]
    if k == "Int":
        n = v[1]
        if n == MIN:
            return "(-9223372036854775807 - 1)"
        return f"({n})" if n < 0 else str(n)
    if k == "Float":
        return src_float(v[1])
    if k == "Str":
        return src_str(v[1])
    if k == "Bool":
        return "True" if v[1] else "False"
    if k == "Unit":
        return "Unit"
    if k == "List":
        return "[" + ",".join(src(x) for x in v[1]) + "]"
    if k == "Tuple":
        if len(v[1]) == 1:
            return "(" + src(v[1][0]) + ",)"
        return "( " + " , ".join(src(x) for x in v[1]) + " )"
    if k == "Dict":
        return "Dict[" + ", ".join(f"{src_str(kk)} => {src(x)}" for kk, x in v[1]) + "]"
    if k == "Some":
        return f"Some({src(v[1])})"
    if k == "None":
        return "None"
    if k == "Ok":
        return f"Ok({src(v[1])})"
    if k == "Err":
        return f"Err({src(v[1])})"
    if k == "Struct":
        return v[1] + "{" + ", ".join(f"{f}: {src(x)}" for f, x in v[2]) + "}"
    if k == "Variant":
        return v[1] if v[2] is None else f"{v[1]}({src(v[2])})"
    raise ValueError(v)


# ---- structural equality (the model for `==`): floats by printed form, dicts as key->value maps

def canon(v):
    k = v[0]
    if k == "Float":
        return ("Float", render_float(v[1]))
    if k in ("Int", "Str", "Bool"):
        return v
    if k in ("Unit", "None"):
        return (k,)
    if k in ("List", "Tuple"):
        return (k, tuple(canon(x) for x in v[1]))
    if k == "Dict":
        return ("Dict", tuple(sorted((kk, canon(x)) for kk, x in v[1])))
    if k in ("Some", "Ok", "Err"):
        return (k, canon(v[1]))
    if k == "Struct":
        return ("Struct", v[1], tuple((f, canon(x)) for f, x in v[2]))
    if k == "Variant":
        return ("Variant", v[1], None if v[2] is None else canon(v[2]))
    raise ValueError(v)


def features(v) -> set:
    fs = set()

    def go(x, d):
        k = x[0]
        fs.add(k)
        if d >= 2:
            fs.add("depth>=2")
        if k == "Str":
            s = x[1]
            if any(c in s for c in '"\\\n\t') or any(ord(c) > 127 for c in s):
                fs.add("special-string")
            if s.endswith("\\"):
                fs.add("string-ends-backslash")
        if k in ("List", "Tuple"):
            for y in x[1]:
                go(y, d + 1)
        elif k == "Dict":
            for kk, y in x[1]:
                go(("Str", kk), d + 1)
                go(y, d + 1)
        elif k in ("Some", "Ok", "Err"):
            go(x[1], d + 1)
        elif k == "Struct":
            for _, y in x[2]:
                go(y, d + 1)
        elif k == "Variant" and x[2] is not None:
            go(x[2], d + 1)
    go(v, 0)
    return fs


def to_json(v):
    """JSON-safe encoding (floats as hex so that replay is exact)."""
    k = v[0]
    if k == "Float":
        return ["Float", v[1].hex()]
    if k in ("Int", "Str", "Bool"):
        return [k, v[1]]
    if k in ("Unit", "None"):
        return [k]
    if k in ("List", "Tuple"):
        return [k, [to_json(x) for x in v[1]]]
    if k == "Dict":
        return [k, [[kk, to_json(x)] for kk, x in v[1]]]
    if k in ("Some", "Ok", "Err"):
        return [k, to_json(v[1])]
    if k == "Struct":
        return [k, v[1], [[f, to_json(x)] for f, x in v[2]]]
    if k == "Variant":
        return [k, v[1], None if v[2] is None else to_json(v[2])]
    raise ValueError(v)


def from_json(j):
    k = j[0]
    if k == "Float":
        return ("Float", float.fromhex(j[1]))
    if k in ("Int", "Str", "Bool"):
        return (k, j[1])
    if k in ("Unit", "None"):
        return (k,)
    if k in ("List", "Tuple"):
        return (k, [from_json(x) for x in j[1]])
    if k == "Dict":
        return (k, [(kk, from_json(x)) for kk, x in j[1]])
    if k in ("Some", "Ok", "Err"):
        return (k, from_json(j[1]))
    if k == "Struct":
        return (k, j[1], [(f, from_json(x)) for f, x in j[2]])
    if k == "Variant":
        return (k, j[1], None if j[2] is None else from_json(j[2]))
    raise ValueError(j)
