"""Grammar-based generator of Garden syntax trees and their canonical source text (C33).

A tree is built directly in the simplified shape `gv.model.dbgtree.simplify` gives for the parser's own Debug dump
(JSON-able: lists only), so the oracle is literally parse(print(T)) == T.  The grammar below is written from the
language documentation / ast.rs, not from parser.rs:

  * binary operators all have one precedence and associate to the left, so a right operand that is itself a binary
    operation, and a receiver of a call / method call / field access that is one, only exist inside Parentheses;
  * `let`, assignment, `return`, `break`, `continue`, `while`, `for`, `assert` only occur as statements of a block or
    as a top-level expression;
  * a block has no expression form: blocks only occur as bodies and as a top-level item.
Canonical text: one statement per line, one space around binary operators and after commas, bodies indented by two.
"""
from __future__ import annotations

VAR_NAMES = ["x", "y", "foo", "bar_baz", "_u", "a1", "n", "item", "acc", "self_", "value2", "i", "lets", "iff",
             "returned", "funs", "matches", "format", "in_", "dict", "True", "False", "None", "Some", "Foo", "Unit"]
FIELD_NAMES = ["x", "len", "name", "first_item", "_p", "get", "as_float", "in2", "lets", "matched"]
TYPE_NAMES = ["Int", "String", "List", "Option", "Foo", "T", "U", "Result", "Fun", "Dict", "MyType2", "NoValue"]
STR_CHARS = ["a", "b", " ", "é", "☃", "😀", "\n", "\t", "\"", "\\", "{", "}", "//", "'", "$", "0", "=>", "(", ")"]
BINOPS = [("+", "Add"), ("+.", "AddFloat"), ("-", "Subtract"), ("-.", "SubtractFloat"), ("*", "Multiply"),
          ("*.", "MultiplyFloat"), ("/", "Divide"), ("/.", "DivideFloat"), ("%", "Modulo"), ("**", "Exponent"),
          ("==", "Equal"), ("!=", "NotEqual"), ("&&", "And"), ("||", "Or"), ("&", "BitwiseAnd"), ("|", "BitwiseOr"),
          ("<", "LessThan"), ("<=", "LessThanOrEqual"), (">", "GreaterThan"), (">=", "GreaterThanOrEqual"),
          ("^", "StringConcat")]
OP_TEXT = {k: t for t, k in BINOPS}
INTS = [0, 1, 2, 7, 10, 42, 255, 1000000, -1, -7, 9223372036854775807, -9223372036854775807, -9223372036854775808]
FLOATS = [0.0, 0.5, 1.5, 2.25, 10.0, 123.125, -0.5, -2.0, 1000000.0]
KEYWORDS_IN_GRAMMAR = True


def sym(n):
    return ["sym", n]


class Gen:
    def __init__(self, r, max_depth=4):
        self.r = r
        self.max_depth = max_depth
        self.count = {}

    def note(self, k):
        self.count[k] = self.count.get(k, 0) + 1

    # ---- names / hints -------------------------------------------------------------------------------------
    def var(self):
        return sym(self.r.choice(VAR_NAMES))

    def tname(self):
        return sym(self.r.choice(TYPE_NAMES))

    def hint(self, d=0):
        r = self.r
        k = r.int(0, 9) if d < 2 else 0
        if k <= 4:
            return ["TypeHint", self.tname(), []]
        if k <= 7:
            return ["TypeHint", self.tname(), [self.hint(d + 1) for _ in range(r.int(1, 2))]]
        return ["TypeHint", sym("Tuple"), [self.hint(d + 1) for _ in range(r.int(0, 3))]]

    def opt_hint(self):
        return self.hint() if self.r.bool() else None

    def dest(self):
        r = self.r
        if r.int(0, 3):
            return ["Symbol", self.var()]
        n = r.int(0, 3)
        names = []
        for _ in range(n):
            v = self.var()
            if v[1] == "_" or v not in names:     # duplicate names in a destructuring are rejected by the grammar
                names.append(v)
        return ["Destructure", names]

    def params(self):
        out = []
        for _ in range(self.r.int(0, 3)):
            v = self.var()
            if all(p[1] != v for p in out):       # duplicate parameter names are rejected by the grammar
                out.append(["Param", v, self.opt_hint()])
        return out

    def type_params(self):
        r = self.r
        if r.int(0, 2):
            return []
        return [sym(n) for n in r.sample(["T", "U", "V", "Elem"], r.int(1, 3))]

    def doc(self):
        r = self.r
        if r.int(0, 2):
            return None
        return r.choice(["Does a thing.", "é doc ☃", "Returns `x`.", "TODO", "a // b"])

    # ---- expressions ---------------------------------------------------------------------------------------
    def string(self):
        r = self.r
        return "".join(r.choice(STR_CHARS) for _ in range(r.int(0, 5)))

    def atom(self, d):
        r = self.r
        deep = d < self.max_depth
        k = r.int(0, 15 if deep else 5)
        self.note("atom")
        if k <= 1:
            return ["Variable", self.var()]
        if k == 2:
            return ["IntLiteral", r.choice(INTS)]
        if k == 3:
            return ["FloatLiteral", r.choice(FLOATS)]
        if k <= 5:
            return ["StringLiteral", self.string()]
        if k == 6:
            return ["ListLiteral", [self.expr(d + 1) for _ in range(r.int(0, 3))]]
        if k == 7:
            return ["TupleLiteral", [self.expr(d + 1) for _ in range(r.choice([0, 1, 2, 2, 3]))]]
        if k == 8:
            return ["DictLiteral", [["KV", self.expr(d + 1), self.expr(d + 1)] for _ in range(r.int(0, 2))]]
        if k == 9:
            fields = [["T", sym(r.choice(FIELD_NAMES[:5])), self.expr(d + 1)] for _ in range(r.int(0, 2))]
            return ["StructLiteral", sym(r.choice(["Foo", "Point", "P2"])), fields]
        if k <= 12:
            self.note("parens")
            return ["Parentheses", self.expr(d + 1)]
        if k == 13:
            return ["FunLiteral", ["FunInfo", None, None, [], self.params(), self.opt_hint(), self.block(d + 1)]]
        return self.keyword_expr(d)

    def keyword_expr(self, d):
        r = self.r
        k = r.int(0, 3)
        self.note("keyword-expr")
        if k == 0:
            els = None
            c = r.int(0, 2)
            if c == 1:
                els = self.block(d + 1)
            elif c == 2:
                # `else if`: an else block holding exactly one `if`
                els = ["Block", [["If", self.operand(d + 1), self.block(d + 1),
                                  self.block(d + 1) if r.bool() else None]]]
            return ["If", self.expr(d + 1), self.block(d + 1), els]
        if k == 1:
            cases = []
            for _ in range(r.int(0, 3)):
                payload = None
                if r.bool():
                    payload = self.dest()
                cases.append(["T", ["Pattern", sym(r.choice(["Some", "None", "_", "Ok", "Err", "Foo", "x"])), payload],
                              self.block(d + 1)])
            return ["Match", self.expr(d + 1), cases]
        if k == 2:
            return ["Try", self.block(d + 1), self.var(), self.block(d + 1)]
        return ["If", self.expr(d + 1), self.block(d + 1), None]

    def postfix(self, d):
        """atom followed by 0..3 call / method call / field / namespace accesses"""
        r = self.r
        e = self.atom(d)
        for _ in range(r.choice([0, 0, 1, 1, 2, 3])):
            k = r.int(0, 3)
            self.note("postfix")
            if k == 0:
                if e[0] == "DotAccess":           # `e.f()` is a method call: calling a field needs `(e.f)()`
                    e = ["Parentheses", e]
                e = ["Call", e, [self.expr(d + 1) for _ in range(r.int(0, 2))]]
            elif k == 1:
                e = ["MethodCall", e, sym(r.choice(FIELD_NAMES)), [self.expr(d + 1) for _ in range(r.int(0, 2))]]
            elif k == 2:
                e = ["DotAccess", e, sym(r.choice(FIELD_NAMES))]
            else:
                e = ["NamespaceAccess", e, sym(r.choice(FIELD_NAMES[:6]))]
        return e

    def operand(self, d):
        return self.postfix(d)

    def expr(self, d=0):
        """any value expression: a left-nested chain of operands"""
        r = self.r
        e = self.operand(d)
        if d < self.max_depth:
            for _ in range(r.choice([0, 0, 0, 1, 1, 2, 3])):
                self.note("binop")
                e = ["BinaryOperator", e, [r.choice(BINOPS)[1]], self.operand(d + 1)]
        return e

    # ---- statements / blocks -------------------------------------------------------------------------------
    def stmt(self, d):
        r = self.r
        k = r.int(0, 13)
        self.note("stmt")
        if k <= 3:
            return self.expr(d)
        if k <= 5:
            return ["Let", self.dest(), self.opt_hint() if r.bool() else None, self.expr(d + 1)]
        if k == 6:
            return ["Assign", self.var(), self.expr(d + 1)]
        if k == 7:
            return ["AssignUpdate", self.var(), [r.choice(["Add", "Subtract"])], self.expr(d + 1)]
        if k == 8:
            return ["Return", self.expr(d + 1) if r.int(0, 2) else None]
        if k == 9:
            return [r.choice(["Break", "Continue"])]
        if k == 10:
            return ["While", self.expr(d + 1), self.block(d + 1)]
        if k == 11:
            return ["ForIn", self.dest(), self.expr(d + 1), self.block(d + 1)]
        if k == 12:
            return ["Assert", self.expr(d + 1)]
        return self.keyword_expr(d)

    def block(self, d):
        n = self.r.choice([0, 1, 1, 2, 3]) if d < self.max_depth else self.r.int(0, 1)
        return ["Block", [self.stmt(d + 1) for _ in range(n)]]

    # ---- items ---------------------------------------------------------------------------------------------
    def vis(self):
        return ["Public"] if self.r.int(0, 3) == 0 else ["CurrentFile"]

    def item(self):
        r = self.r
        k = r.int(0, 11)
        self.note("item")
        if k <= 2:
            name = sym(r.choice(["main", "helper", "do_it", "f2"]))
            info = ["FunInfo", self.doc(), name, self.type_params(), self.params(), self.opt_hint(), self.block(1)]
            return ["Fun", name, info, self.vis()]
        if k == 3:
            name = sym(r.choice(["describe", "len2", "go"]))
            info = ["FunInfo", self.doc(), name, self.type_params(), self.params(), self.opt_hint(), self.block(1)]
            recv = sym(r.choice(["this", "self_", "x"]))
            info[4] = [p for p in info[4] if p[1] != recv]      # the receiver is a parameter too: no duplicates
            return ["Method", ["MethodInfo", self.hint(1), recv, name, ["UserDefinedMethod", info]], self.vis()]
        if k == 4:
            return ["Test", ["TestInfo", self.doc(), sym(r.choice(["t1", "adds_numbers", "x"])), self.block(1)]]
        if k == 5:
            fields = [["Field", sym(n), self.hint(), None] for n in r.sample(FIELD_NAMES[:5], r.int(0, 3))]
            return ["Struct", ["StructInfo", self.vis(), self.doc(), sym(r.choice(["Point", "Foo"])),
                               self.type_params(), fields]]
        if k == 6:
            variants = [["Variant", sym(n), self.hint() if r.int(0, 2) == 0 else None]
                        for n in r.sample(["Red", "Green", "Leaf", "Node", "a_b"], r.int(0, 3))]
            return ["Enum", ["EnumInfo", self.vis(), self.doc(), sym(r.choice(["Color", "Tree"])),
                             self.type_params(), variants]]
        if k == 7:
            return ["Import", ["ImportInfo", r.choice(["./foo.gdn", "__fs.gdn", "../a b/é.gdn", "x"]),
                               self.var() if r.bool() else None]]
        if k == 8:
            return ["Block", self.block(1)]
        e = self.stmt(1)
        if starts_with_closure(e):
            # a top-level item that starts with `fun` is read as a definition (the repository pins this in
            # src/test_files/check/ambiguity_toplevel_closure.gdn): such an expression needs parentheses there
            self.note("toplevel-closure-parenthesised")
            e = parenthesise_head(e)
        return ["Expr", ["ToplevelExpression", e]]

    def program(self):
        return [self.item() for _ in range(self.r.int(1, 4))]


HEAD_CHILD = {"Call": 1, "MethodCall": 1, "DotAccess": 1, "NamespaceAccess": 1, "BinaryOperator": 1}


def starts_with_closure(e):
    while e[0] in HEAD_CHILD:
        e = e[HEAD_CHILD[e[0]]]
    return e[0] == "FunLiteral"


def parenthesise_head(e):
    if e[0] in HEAD_CHILD:
        e = list(e)
        e[HEAD_CHILD[e[0]]] = parenthesise_head(e[HEAD_CHILD[e[0]]])
        return e
    return ["Parentheses", e]


# ------------------------------------------------------------------------------------------------------------
# canonical printer

def p_str(s):
    return '"' + s.replace("\\", "\\\\").replace('"', '\\"').replace("\n", "\\n").replace("\t", "\\t") + '"'


def p_float(f):
    t = repr(float(f))
    if "e" in t or "inf" in t or "nan" in t:
        raise ValueError(f"float {f} has no plain decimal form")
    return t


def p_hint(h):
    _, s, args = h
    if s[1] == "Tuple":
        if len(args) == 1:
            return "(" + p_hint(args[0]) + ",)"
        return "(" + ", ".join(p_hint(a) for a in args) + ")"
    if args:
        return s[1] + "<" + ", ".join(p_hint(a) for a in args) + ">"
    return s[1]


def p_dest(d):
    if d[0] == "Symbol":
        return d[1][1]
    names = [s[1] for s in d[1]]
    if len(names) == 1:
        return "(" + names[0] + ",)"
    return "(" + ", ".join(names) + ")"


def p_params(ps, first=None):
    parts = [first] if first else []
    for _, s, h in ps:
        parts.append(s[1] + (": " + p_hint(h) if h else ""))
    return "(" + ", ".join(parts) + ")"


def p_tparams(tps):
    return "<" + ", ".join(t[1] for t in tps) + ">" if tps else ""


def p_block(b, ind):
    stmts = b[1]
    if not stmts:
        return "{}"
    inner = ind + "  "
    return "{\n" + "".join(inner + p_expr(s, inner) + "\n" for s in stmts) + ind + "}"


def p_args(args, ind):
    return "(" + ", ".join(p_expr(a, ind) for a in args) + ")"


def p_expr(e, ind=""):
    k = e[0]
    if k == "Variable":
        return e[1][1]
    if k == "IntLiteral":
        return str(e[1])
    if k == "FloatLiteral":
        return p_float(e[1])
    if k == "StringLiteral":
        return p_str(e[1])
    if k == "ListLiteral":
        return "[" + ", ".join(p_expr(x, ind) for x in e[1]) + "]"
    if k == "TupleLiteral":
        if len(e[1]) == 1:
            return "(" + p_expr(e[1][0], ind) + ",)"
        return "(" + ", ".join(p_expr(x, ind) for x in e[1]) + ")"
    if k == "DictLiteral":
        return "Dict[" + ", ".join(p_expr(kv[1], ind) + " => " + p_expr(kv[2], ind) for kv in e[1]) + "]"
    if k == "StructLiteral":
        if not e[2]:
            return e[1][1] + "{}"
        return e[1][1] + "{ " + ", ".join(f[1][1] + ": " + p_expr(f[2], ind) for f in e[2]) + " }"
    if k == "Parentheses":
        return "(" + p_expr(e[1], ind) + ")"
    if k == "FunLiteral":
        _, _doc, _name, tps, params, ret, body = e[1]
        return "fun" + p_tparams(tps) + p_params(params) + (": " + p_hint(ret) if ret else "") + " " + p_block(body, ind)
    if k == "If":
        s = "if " + p_expr(e[1], ind) + " " + p_block(e[2], ind)
        els = e[3]
        if els is not None:
            if len(els[1]) == 1 and els[1][0][0] == "If":
                s += " else " + p_expr(els[1][0], ind)
            else:
                s += " else " + p_block(els, ind)
        return s
    if k == "Match":
        if not e[2]:
            return "match " + p_expr(e[1], ind) + " {}"
        inner = ind + "  "
        s = "match " + p_expr(e[1], ind) + " {\n"
        for _, pat, body in e[2]:
            ptxt = pat[1][1] + ("(" + p_dest(pat[2]) + ")" if pat[2] is not None else "")
            s += inner + ptxt + " => " + p_block(body, inner) + "\n"
        return s + ind + "}"
    if k == "Try":
        return "try " + p_block(e[1], ind) + " catch (" + e[2][1] + ") " + p_block(e[3], ind)
    if k == "Call":
        return p_expr(e[1], ind) + p_args(e[2], ind)
    if k == "MethodCall":
        return p_expr(e[1], ind) + "." + e[2][1] + p_args(e[3], ind)
    if k == "DotAccess":
        return p_expr(e[1], ind) + "." + e[2][1]
    if k == "NamespaceAccess":
        return p_expr(e[1], ind) + "::" + e[2][1]
    if k == "BinaryOperator":
        return p_expr(e[1], ind) + " " + OP_TEXT[e[2][0]] + " " + p_expr(e[3], ind)
    if k == "Let":
        return "let " + p_dest(e[1]) + (": " + p_hint(e[2]) if e[2] else "") + " = " + p_expr(e[3], ind)
    if k == "Assign":
        return e[1][1] + " = " + p_expr(e[2], ind)
    if k == "AssignUpdate":
        return e[1][1] + (" += " if e[2][0] == "Add" else " -= ") + p_expr(e[3], ind)
    if k == "Return":
        return "return" + (" " + p_expr(e[1], ind) if e[1] is not None else "")
    if k == "Break":
        return "break"
    if k == "Continue":
        return "continue"
    if k == "While":
        return "while " + p_expr(e[1], ind) + " " + p_block(e[2], ind)
    if k == "ForIn":
        return "for " + p_dest(e[1]) + " in " + p_expr(e[2], ind) + " " + p_block(e[3], ind)
    if k == "Assert":
        return "assert(" + p_expr(e[1], ind) + ")"
    raise ValueError(f"unknown expression node {k}")


def p_doc(doc):
    return "/// " + doc + "\n" if doc is not None else ""


def p_vis(v):
    return "public " if v[0] == "Public" else ""


def p_item(it):
    k = it[0]
    if k == "Fun":
        _, name, info, vis = it
        _, doc, _n, tps, params, ret, body = info
        return (p_doc(doc) + p_vis(vis) + "fun " + name[1] + p_tparams(tps) + p_params(params)
                + (": " + p_hint(ret) if ret else "") + " " + p_block(body, ""))
    if k == "Method":
        _, minfo, vis = it
        _, rhint, rsym, name, kind = minfo
        _, doc, _n, tps, params, ret, body = kind[1]
        return (p_doc(doc) + p_vis(vis) + "method " + name[1] + p_tparams(tps)
                + p_params(params, first=rsym[1] + ": " + p_hint(rhint))
                + (": " + p_hint(ret) if ret else "") + " " + p_block(body, ""))
    if k == "Test":
        _, doc, name, body = it[1]
        return p_doc(doc) + "test " + name[1] + " " + p_block(body, "")
    if k == "Struct":
        _, vis, doc, name, tps, fields = it[1]
        if not fields:
            return p_doc(doc) + p_vis(vis) + "struct " + name[1] + p_tparams(tps) + " {}"
        return (p_doc(doc) + p_vis(vis) + "struct " + name[1] + p_tparams(tps) + " {\n"
                + "".join("  " + f[1][1] + ": " + p_hint(f[2]) + ",\n" for f in fields) + "}")
    if k == "Enum":
        _, vis, doc, name, tps, variants = it[1]
        if not variants:
            return p_doc(doc) + p_vis(vis) + "enum " + name[1] + p_tparams(tps) + " {}"
        return (p_doc(doc) + p_vis(vis) + "enum " + name[1] + p_tparams(tps) + " {\n"
                + "".join("  " + v[1][1] + ("(" + p_hint(v[2]) + ")" if v[2] else "") + ",\n" for v in variants) + "}")
    if k == "Import":
        _, path, ns = it[1]
        return "import " + p_str(path) + (" as " + ns[1] if ns else "")
    if k == "Block":
        return p_block(it[1], "")
    if k == "Expr":
        return p_expr(it[1][1], "")
    raise ValueError(f"unknown item {k}")


def p_program(items):
    return "\n\n".join(p_item(i) for i in items) + "\n"


def norm(t):
    """tuples -> lists (the shape JSON round-trips), so generated and parsed trees compare structurally"""
    if isinstance(t, (list, tuple)):
        return [norm(x) for x in t]
    return t


def size(t):
    if isinstance(t, list):
        return 1 + sum(size(x) for x in t)
    return 0


def kinds(t, out=None):
    out = set() if out is None else out
    if isinstance(t, list):
        if t and isinstance(t[0], str) and t[0][:1].isupper():
            out.add(t[0])
        for x in t:
            kinds(x, out)
    return out
