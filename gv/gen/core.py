"""G-core: generator of typed, well-scoped, terminating programs in Garden's core language, with a
printer that records the source span of every node.

The generator knows the binding structure (every variable occurrence points at its Binder), the type
of every expression and whether an expression is *pure and total*.  Evaluation-order choices that the
documentation does not fix are made unobservable by construction:
  * in calls / list / tuple literals at most one child may be effectful or failing;
  * a variable is never assigned after a closure captured it, and closures never assign to
    captured variables.
"""
from __future__ import annotations

from dataclasses import dataclass, field
from typing import Any, Optional

# ---------------------------------------------------------------------------------- types

INT, BOOL, STR, UNIT = "Int", "Bool", "String", "Unit"


def TList(t):
    return ("List", t)


def TTuple(ts):
    return ("Tuple", tuple(ts))


def TOption(t):
    return ("Option", t)


def TResult(t):
    return ("Result", t)


def TFun(ps, r):
    return ("Fun", tuple(ps), r)


COLOR = ("Enum", "Color")
COLOR_VARIANTS = [("Red", None), ("Green", None), ("Custom", INT)]


def hint(t) -> str:
    if isinstance(t, str):
        return t
    k = t[0]
    if k == "List":
        return f"List<{hint(t[1])}>"
    if k == "Tuple":
        return "(" + ", ".join(hint(x) for x in t[1]) + ("," if len(t[1]) == 1 else "") + ")"
    if k == "Option":
        return f"Option<{hint(t[1])}>"
    if k == "Result":
        return f"Result<{hint(t[1])}, String>"
    if k == "Enum":
        return t[1]
    if k == "Fun":
        return "Fun<(" + ", ".join(hint(x) for x in t[1]) + ("," if len(t[1]) == 1 else "") + f"), {hint(t[2])}>"
    raise ValueError(t)


# ---------------------------------------------------------------------------------- AST

_next_id = [0]


def _nid():
    _next_id[0] += 1
    return _next_id[0]


@dataclass
class Binder:
    name: str
    type: Any
    id: int = field(default_factory=_nid)
    kind: str = "local"      # local | param | loopvar | pattern | counter
    frozen: bool = False     # captured by a closure: must not be assigned any more
    assignable: bool = True
    def_span: Optional[tuple] = None


@dataclass
class E:
    kind: str
    args: tuple
    type: Any
    pure: bool = True        # no output, cannot fail, no calls of impure functions
    id: int = field(default_factory=_nid)
    span: Optional[tuple] = None


@dataclass
class S:
    kind: str
    args: tuple
    id: int = field(default_factory=_nid)
    span: Optional[tuple] = None


@dataclass
class Block:
    stmts: list
    value: Optional[E] = None    # final expression (the block's value), if any
    id: int = field(default_factory=_nid)
    span: Optional[tuple] = None


@dataclass
class FunDef:
    name: str
    params: list                 # [Binder]
    ret: Any
    body: Block
    pure: bool
    fuel: bool = False           # recursive on a decreasing first parameter
    annotate: bool = True
    id: int = field(default_factory=_nid)
    span: Optional[tuple] = None
    name_span: Optional[tuple] = None


@dataclass
class Program:
    funs: list
    main: Block                  # top-level statements
    uses_color: bool = False
    tests: list = field(default_factory=list)


# ---------------------------------------------------------------------------------- generator

NAMES = ["a", "b", "c", "x", "y", "n", "acc", "tmp", "v", "w", "k", "item", "res", "cur"]
WORDS = ["a", "bc", "hello", "x y", "", "zz", "garden", "q"]


class Knobs:
    def __init__(self, **kw):
        self.shadowing = True
        self.annotations = "full"        # full | partial | none (let hints; function signatures always annotated)
        self.assignment = True
        self.while_loops = True
        self.errors = True               # allow failing operations (division, throw, assert, or_throw)
        self.closures = True
        self.max_stmts = 8
        self.max_depth = 3
        self.max_funs = 3
        self.early_exit = True
        self.early_exit_bias = False
        self.exit_stress = False         # loop-heavy programs whose loop bodies shadow and leave early
        self.matches = True
        self.prints = True
        self.__dict__.update(kw)


class Gen:
    def __init__(self, r, knobs: Optional[Knobs] = None):
        self.r = r
        self.k = knobs or Knobs()
        self.funs: list[FunDef] = []
        self.scopes: list[dict] = []     # name -> Binder, innermost last
        self.loop_depth = 0
        self.in_fun: Optional[FunDef] = None
        self.fun_ret = None
        self.in_closure = 0
        self.closure_floor = []          # scope index below which variables are captured (not assignable)
        self.uses_color = False
        self.counter_n = 0
        self.stmt_budget = 60

    # ---- scope handling
    def push(self):
        self.scopes.append({})

    def pop(self):
        self.scopes.pop()

    def visible(self):
        seen = {}
        for sc in self.scopes:
            for n, b in sc.items():
                seen[n] = b
        return list(seen.values())

    def fresh_name(self):
        r = self.r
        cur = self.scopes[-1]
        taken_fun = {f.name for f in self.funs}
        if self.k.shadowing and len(self.scopes) > 1 and r.bool(0.5):
            outer = [n for sc in self.scopes[:-1] for n, b in sc.items()
                     if n not in cur and n not in taken_fun and b.kind != "counter" and n != "fuel"]
            if outer:
                return r.choice(outer)
        for _ in range(6):
            n = r.choice(NAMES)
            if n in cur or n in taken_fun:
                continue
            if not self.k.shadowing and any(n in sc for sc in self.scopes):
                continue
            return n
        i = 0
        while True:
            n = f"v{i}"
            if not any(n in sc for sc in self.scopes):
                return n
            i += 1

    def declare(self, t, kind="local", name=None) -> Binder:
        b = Binder(name or self.fresh_name(), t, kind=kind)
        self.scopes[-1][b.name] = b
        return b

    def vars_of(self, t, assignable=False):
        out = []
        floor = self.closure_floor[-1] if self.closure_floor else 0
        for b in self.visible():
            if b.type != t:
                continue
            if assignable:
                if not b.assignable or b.frozen or b.kind in ("counter", "loopvar", "pattern"):
                    continue
                # inside a closure only the closure's own locals may be assigned
                if floor and not any(b is sc.get(b.name) for sc in self.scopes[floor:]):
                    continue
            out.append(b)
        return out

    # ---- types
    def gen_type(self, depth=0, allow_fun=False):
        r = self.r
        if depth >= 2:
            return r.choice([INT, INT, BOOL, STR])
        k = r.int(0, 11)
        if k <= 3:
            return INT
        if k == 4:
            return BOOL
        if k == 5:
            return STR
        if k == 6:
            return TList(self.gen_type(depth + 1))
        if k == 7:
            return TTuple([self.gen_type(depth + 1), self.gen_type(depth + 1)])
        if k == 8:
            return TOption(self.gen_type(depth + 1))
        if k == 9:
            return TResult(self.gen_type(depth + 1))
        if k == 10:
            self.uses_color = True
            return COLOR
        return INT

    # ---- expressions
    def lit(self, t) -> E:
        r = self.r
        if t == INT:
            return E("int", (r.choice([0, 1, 2, 3, 5, 7, 10, -1, -4, 12, 100]),), INT)
        if t == BOOL:
            return E("bool", (r.bool(),), BOOL)
        if t == STR:
            return E("str", (r.choice(WORDS),), STR)
        if t == UNIT:
            return E("unit", (), UNIT)
        k = t[0]
        if k == "List":
            n = r.int(0, 3)
            return E("list", (tuple(self.lit(t[1]) for _ in range(n)),), t)
        if k == "Tuple":
            return E("tuple", (tuple(self.lit(x) for x in t[1]),), t)
        if k == "Option":
            if r.bool(0.6):
                return E("some", (self.lit(t[1]),), t)
            return E("none", (), t)
        if k == "Result":
            if r.bool(0.6):
                return E("ok", (self.lit(t[1]),), t)
            return E("err", (E("str", (r.choice(["bad", "oops"]),), STR),), t)
        if k == "Enum":
            self.uses_color = True
            name, payload = r.choice(COLOR_VARIANTS)
            if payload is None:
                return E("variant", (name, None), t)
            return E("variant", (name, self.lit(payload)), t)
        if k == "Fun":
            return self.gen_lambda(t, 3)
        raise ValueError(t)

    def expr(self, t, depth, pure=False) -> E:
        """Generate an expression of type t. pure=True forbids output/failure."""
        r = self.r
        if depth <= 0:
            vs = self.vars_of(t)
            if vs and r.bool(0.7):
                return E("var", (r.choice(vs),), t)
            return self.lit(t)
        opts = []
        vs = self.vars_of(t)
        if vs:
            opts += [(5, "var")]
        opts += [(2, "lit")]
        if t == INT:
            opts += [(5, "arith"), (1, "len"), (1, "if")]
            if not pure and self.k.errors:
                opts += [(1, "div")]
        elif t == BOOL:
            opts += [(4, "cmp"), (2, "logic"), (1, "not"), (1, "eq")]
        elif t == STR:
            opts += [(3, "concat"), (2, "repr"), (1, "if")]
        elif isinstance(t, tuple) and t[0] == "List":
            opts += [(3, "listlit"), (2, "append")]
            if t[1] == INT:
                opts += [(1, "range")]
        elif isinstance(t, tuple) and t[0] == "Tuple":
            opts += [(3, "tuplelit")]
        elif isinstance(t, tuple) and t[0] == "Option":
            opts += [(3, "optlit"), (2, "get")]
        elif isinstance(t, tuple) and t[0] == "Result":
            opts += [(3, "reslit")]
        elif isinstance(t, tuple) and t[0] == "Fun":
            return self.gen_lambda(t, depth)
        if t != UNIT and not (isinstance(t, tuple) and t[0] == "Fun"):
            opts += [(1, "if")]
            if self.k.matches:
                opts += [(2, "match")]
            fs = [f for f in self.funs if f.ret == t and (f.pure or not pure) and f is not self.in_fun]
            if fs:
                opts += [(4, "call")]
            cl = [b for b in self.visible() if isinstance(b.type, tuple) and b.type[0] == "Fun" and b.type[2] == t]
            if cl and not pure:
                opts += [(3, "callv")]
            if not pure and self.k.errors and isinstance(t, str):
                opts += [(1, "or_throw")]
        kind = r.weighted(opts)
        d = depth - 1
        if kind == "var":
            return E("var", (r.choice(vs),), t)
        if kind == "lit":
            return self.lit(t)
        if kind == "arith":
            op = r.choice(["+", "-", "*", "+", "-"])
            l = self.expr(INT, d, pure)
            rr = self.expr(INT, d, pure)
            return E("bin", (op, l, rr), INT, l.pure and rr.pure)
        if kind == "div":
            op = r.choice(["/", "%"])
            l = self.expr(INT, d, pure)
            # divisor: usually a non-zero literal, sometimes an arbitrary expression (may be zero)
            if r.bool(0.75):
                rr = E("int", (r.choice([1, 2, 3, 7, -2]),), INT)
                return E("bin", (op, l, rr), INT, l.pure)
            rr = self.expr(INT, d, pure)
            return E("bin", (op, l, rr), INT, False)
        if kind == "len":
            if r.bool():
                e = self.expr(STR, d, pure)
            else:
                e = self.expr(TList(r.choice([INT, STR])), d, pure)
            return E("method", (e, "len", ()), INT, e.pure)
        if kind == "cmp":
            op = r.choice(["<", "<=", ">", ">="])
            l = self.expr(INT, d, pure)
            rr = self.expr(INT, d, pure)
            return E("bin", (op, l, rr), BOOL, l.pure and rr.pure)
        if kind == "eq":
            et = r.choice([INT, STR, BOOL, INT, TList(INT), TTuple([INT, STR]), TOption(INT)])
            op = r.choice(["==", "!="])
            l = self.expr(et, d, pure)
            rr = self.expr(et, d, pure)
            return E("bin", (op, l, rr), BOOL, l.pure and rr.pure)
        if kind == "logic":
            op = r.choice(["&&", "||"])
            l = self.expr(BOOL, d, pure)
            rr = self.expr(BOOL, d, pure)
            return E("bin", (op, l, rr), BOOL, l.pure and rr.pure)
        if kind == "not":
            e = self.expr(BOOL, d, pure)
            return E("callb", ("not", (e,)), BOOL, e.pure)
        if kind == "concat":
            l = self.expr(STR, d, pure)
            rr = self.expr(STR, d, pure)
            return E("bin", ("^", l, rr), STR, l.pure and rr.pure)
        if kind == "repr":
            et = self.gen_type(1)
            e = self.expr(et, d, pure)
            return E("callb", ("string_repr", (e,)), STR, e.pure)
        if kind == "listlit":
            n = r.int(0, 3)
            elems = self.children([t[1]] * n, d, pure)
            return E("list", (tuple(elems),), t, all(e.pure for e in elems))
        if kind == "append":
            pair = self.children([t, t[1]], d, pure)
            return E("method", (pair[0], "append", (pair[1],)), t, pair[0].pure and pair[1].pure)
        if kind == "range":
            a = E("int", (r.int(0, 3),), INT)
            b = E("int", (r.int(0, 5),), INT)
            return E("callb", ("range", (a, b)), t, True)
        if kind == "tuplelit":
            elems = self.children(list(t[1]), d, pure)
            return E("tuple", (tuple(elems),), t, all(e.pure for e in elems))
        if kind == "optlit":
            if r.bool(0.75):
                e = self.expr(t[1], d, pure)
                return E("some", (e,), t, e.pure)
            return E("none", (), t)
        if kind == "get":
            pair = self.children([TList(t[1]), INT], d, pure)
            return E("method", (pair[0], "get", (pair[1],)), t, pair[0].pure and pair[1].pure)
        if kind == "reslit":
            if r.bool(0.7):
                e = self.expr(t[1], d, pure)
                return E("ok", (e,), t, e.pure)
            e = self.expr(STR, d, pure)
            return E("err", (e,), t, e.pure)
        if kind == "if":
            c = self.expr(BOOL, d, pure)
            tb = self.value_block(t, d, pure)
            eb = self.value_block(t, d, pure)
            return E("if", (c, tb, eb), t, c.pure and block_pure(tb) and block_pure(eb))
        if kind == "match":
            return self.gen_match_expr(t, d, pure)
        if kind == "call":
            f = r.choice(fs)
            args = self.children([p.type for p in f.params], d, pure or False, fuel=f.fuel)
            return E("call", (f, tuple(args)), t, f.pure and all(a.pure for a in args))
        if kind == "callv":
            b = r.choice(cl)
            args = self.children(list(b.type[1]), d, pure)
            return E("callv", (b, tuple(args)), t, False)
        if kind == "or_throw":
            opt = r.bool()
            if r.bool(0.8):
                inner = self.expr(t, d, pure)
                e = E("some" if opt else "ok", (inner,), TOption(t) if opt else TResult(t), inner.pure)
            elif opt:
                e = self.expr(TOption(t), d, pure)
            else:
                e = self.expr(TResult(t), d, pure)
            return E("method", (e, "or_throw", ()), t, False)
        raise ValueError(kind)

    def children(self, types, depth, pure, fuel=False):
        """Children of a call/list/tuple: at most one may be impure (evaluation order is not documented)."""
        r = self.r
        n = len(types)
        impure_slot = -1 if (pure or n == 0) else r.int(-1, n - 1)
        out = []
        for i, t in enumerate(types):
            if fuel and i == 0:
                out.append(E("int", (r.int(0, 4),), INT))
                continue
            out.append(self.expr(t, depth, pure=(i != impure_slot)))
        return out

    def value_block(self, t, depth, pure) -> Block:
        """A block used as an expression: optional pure lets, then a final value."""
        self.push()
        stmts = []
        if depth > 0 and self.r.bool(0.3):
            lt = self.r.choice([INT, STR, BOOL])
            e = self.expr(lt, depth - 1, pure)
            b = self.declare(lt)
            stmts.append(S("let", (b, self.maybe_hint(lt), e)))
        v = self.expr(t, depth, pure)
        self.pop()
        return Block(stmts, v)

    def maybe_hint(self, t):
        a = self.k.annotations
        if a == "full":
            return t
        if a == "none":
            return None
        return t if self.r.bool() else None

    def gen_match_expr(self, t, d, pure) -> E:
        r = self.r
        st = r.choice(["Option", "Result", "Enum"])
        if st == "Option":
            pt = r.choice([INT, STR, INT])
            scrut = self.expr(TOption(pt), d, pure)
            arms = []
            self.push()
            b = self.declare(pt, "pattern")
            v = self.value_block(t, d, pure)
            self.pop()
            arms.append((("some", b), v))
            arms.append((("none",), self.value_block(t, d, pure)))
            if r.bool(0.3):
                arms.reverse()
        elif st == "Result":
            pt = r.choice([INT, STR])
            scrut = self.expr(TResult(pt), d, pure)
            self.push()
            b = self.declare(pt, "pattern")
            v1 = self.value_block(t, d, pure)
            self.pop()
            self.push()
            b2 = self.declare(STR, "pattern")
            v2 = self.value_block(t, d, pure)
            self.pop()
            arms = [(("ok", b), v1), (("err", b2), v2)]
        else:
            self.uses_color = True
            scrut = self.expr(COLOR, d, pure)
            arms = []
            names = [n for n, _ in COLOR_VARIANTS]
            use_wild = r.bool(0.4)
            covered = names if not use_wild else r.sample(names, r.int(1, 2))
            for n in names:
                if n not in covered:
                    continue
                payload = dict(COLOR_VARIANTS)[n]
                if payload is None:
                    arms.append((("variant", n, None), self.value_block(t, d, pure)))
                else:
                    self.push()
                    b = self.declare(payload, "pattern")
                    v = self.value_block(t, d, pure)
                    self.pop()
                    arms.append((("variant", n, b), v))
            if use_wild:
                arms.append((("wild",), self.value_block(t, d, pure)))
        return E("match", (scrut, tuple(arms)), t, scrut.pure and all(block_pure(b) for _, b in arms))

    def gen_lambda(self, t, depth) -> E:
        """fun(p: T, ...): R { ... } — may read (capture) visible variables, never assigns them."""
        _, pts, rt = t
        self.in_closure += 1
        self.push()
        self.closure_floor.append(len(self.scopes) - 1)
        # everything visible outside is now captured: freeze it
        for b in self.visible():
            b.frozen = True
        params = [self.declare(pt, "param") for pt in pts]
        saved_loop, self.loop_depth = self.loop_depth, 0
        saved_fun, saved_ret = self.in_fun, self.fun_ret
        self.fun_ret = rt
        body = self.fun_body(rt, max(1, depth - 1), small=True)
        self.loop_depth = saved_loop
        self.in_fun, self.fun_ret = saved_fun, saved_ret
        self.closure_floor.pop()
        self.pop()
        self.in_closure -= 1
        return E("lambda", (tuple(params), rt, body), t, True)

    # ---- statements
    def stmts(self, n, depth) -> list:
        out = []
        for _ in range(n):
            if self.stmt_budget <= 0:
                break
            self.stmt_budget -= 1
            s = self.stmt(depth)
            out.append(s)
            if s.kind in ("break", "continue", "return", "throw"):
                break
            if s.kind == "let" and isinstance(s.args[0].type, tuple) and s.args[0].type[0] == "Fun":
                if self.r.bool(0.6) and s.args[0].type[2] != UNIT:
                    b = s.args[0]
                    args = self.children(list(b.type[1]), 1, False)
                    out.append(S("print", (E("callv", (b, tuple(args)), b.type[2], False),)))
            elif s.kind == "let" and self.r.bool(0.35):
                out.append(S("print", (E("var", (s.args[0],), s.args[0].type),)))
            elif s.kind in ("assign", "addassign") and self.r.bool(0.5):
                out.append(S("print", (E("var", (s.args[0],), s.args[0].type),)))
        return out

    def stmt(self, depth) -> S:
        r = self.r
        k = self.k
        opts = [(6, "let"), (9, "print")]
        if k.assignment:
            opts += [(3, "assign"), (2, "addassign")]
        if depth > 0:
            lw = 4 if k.exit_stress else 1
            opts += [(3, "if"), (3 * lw, "for")]
            if k.while_loops and k.assignment:
                opts += [(2 * lw, "while")]
            if k.matches:
                opts += [(2, "match")]
            if k.closures and self.in_closure == 0:
                opts += [(2, "letfun")]
        opts += [(1, "letd"), (1, "exprstmt")]
        if k.early_exit:
            w = 6 if k.early_exit_bias else 2
            if self.loop_depth > 0:
                opts += [(w, "break"), (w, "continue")]
            if self.fun_ret is not None:
                opts += [(w, "return")]
        if k.errors:
            opts += [(1, "assert"), (1, "throw")]
        kind = r.weighted(opts)
        d = depth - 1
        ed = min(2, max(1, depth))
        if kind == "let":
            t = self.gen_type()
            e = self.expr(t, ed)
            b = self.declare(t)
            return S("let", (b, self.maybe_hint(t), e))
        if kind == "letfun":
            pts = [r.choice([INT, STR, INT]) for _ in range(r.int(0, 2))]
            t = TFun(pts, r.choice([INT, STR, BOOL, TList(INT)]))
            e = self.gen_lambda(t, 2)
            b = self.declare(t)
            b.assignable = False
            return S("let", (b, None, e))
        if kind == "letd":
            ts = [r.choice([INT, STR, BOOL]) for _ in range(2)]
            e = self.expr(TTuple(ts), ed)
            bs = []
            for t in ts:
                bs.append(self.declare(t))
            return S("letd", (tuple(bs), e))
        if kind == "print":
            t = self.gen_type()
            e = self.expr(t, ed)
            return S("print", (e,))
        if kind == "assign":
            cands = [b for b in self.visible() if b in self.vars_of(b.type, assignable=True)
                     and not (isinstance(b.type, tuple) and b.type[0] == "Fun")]
            if not cands:
                return self.stmt_fallback()
            b = r.choice(cands)
            e = self.expr(b.type, ed)
            return S("assign", (b, e))
        if kind == "addassign":
            cands = self.vars_of(INT, assignable=True)
            if not cands:
                return self.stmt_fallback()
            b = r.choice(cands)
            e = self.expr(INT, 1)
            return S("addassign", (b, r.choice(["+=", "-="]), e))
        if kind == "exprstmt":
            if self.funs and r.bool(0.6):
                fs = [f for f in self.funs if f is not self.in_fun]
                if fs:
                    f = r.choice(fs)
                    args = self.children([p.type for p in f.params], ed, False, fuel=f.fuel)
                    return S("expr", (E("call", (f, tuple(args)), f.ret, False),))
            t = self.gen_type()
            e = self.expr(t, ed)
            return S("expr", (e,))
        if kind == "if":
            c = self.expr(BOOL, ed)
            tb = self.block(r.int(1, 3), d)
            eb = self.block(r.int(1, 2), d) if r.bool(0.5) else None
            return S("if", (c, tb, eb))
        if kind == "for":
            if r.bool(0.25):
                ts = [r.choice([INT, STR]), r.choice([INT, BOOL])]
                le = self.expr(TList(TTuple(ts)), ed)
                self.push()
                bs = tuple(self.declare(t, "loopvar") for t in ts)
                dest = bs
            else:
                t = r.choice([INT, INT, STR, TOption(INT)])
                le = self.expr(TList(t), ed)
                self.push()
                dest = self.declare(t, "loopvar")
            self.loop_depth += 1
            body = self.loop_body(d)
            self.loop_depth -= 1
            self.pop()
            return S("for", (dest, le, body))
        if kind == "while":
            self.counter_n += 1
            cb = Binder(f"i{self.counter_n}", INT, kind="counter")
            self.scopes[-1][cb.name] = cb
            limit = r.int(1, 4)
            extra = self.expr(BOOL, 1, pure=True) if r.bool(0.3) else None
            self.push()
            self.loop_depth += 1
            body = self.loop_body(d)
            self.loop_depth -= 1
            self.pop()
            return S("while", (cb, limit, extra, body))
        if kind == "match":
            e = self.gen_match_stmt(d)
            return e
        if kind == "break":
            return S("break", ())
        if kind == "continue":
            return S("continue", ())
        if kind == "return":
            if self.fun_ret == UNIT:
                return S("return", (None,))
            return S("return", (self.expr(self.fun_ret, ed),))
        if kind == "assert":
            c = self.expr(BOOL, ed)
            if r.bool(0.7):
                c = E("bin", ("||", c, E("bool", (True,), BOOL)), BOOL, c.pure)
            return S("assert", (c,))
        if kind == "throw":
            # guarded so that it does not always fire
            c = self.expr(BOOL, ed)
            msg = E("str", (r.choice(["boom", "stop here", "e1"]),), STR)
            self.push()
            blk = Block([S("throw", (msg,))])
            self.pop()
            return S("if", (c, blk, None))
        raise ValueError(kind)

    def stmt_fallback(self) -> S:
        t = self.r.choice([INT, STR])
        e = self.expr(t, 1)
        return S("print", (e,))

    def gen_match_stmt(self, d) -> S:
        r = self.r
        st = r.choice(["Option", "Result", "Enum"])
        if st == "Option":
            pt = r.choice([INT, STR])
            scrut = self.expr(TOption(pt), 2)
            self.push()
            b = self.declare(pt, "pattern")
            b1 = self.block_in_scope(r.int(1, 2), d)
            self.pop()
            arms = [(("some", b), b1), (("none",), self.block(r.int(1, 2), d))]
        elif st == "Result":
            pt = r.choice([INT, STR])
            scrut = self.expr(TResult(pt), 2)
            self.push()
            b = self.declare(pt, "pattern")
            b1 = self.block_in_scope(r.int(1, 2), d)
            self.pop()
            self.push()
            b2 = self.declare(STR, "pattern")
            bb2 = self.block_in_scope(r.int(1, 2), d)
            self.pop()
            arms = [(("ok", b), b1), (("err", b2), bb2)]
        else:
            self.uses_color = True
            scrut = self.expr(COLOR, 2)
            arms = []
            for n, payload in COLOR_VARIANTS:
                if payload is None:
                    arms.append((("variant", n, None), self.block(r.int(1, 2), d)))
                else:
                    self.push()
                    b = self.declare(payload, "pattern")
                    bb = self.block_in_scope(r.int(1, 2), d)
                    self.pop()
                    arms.append((("variant", n, b), bb))
            if r.bool(0.4):
                arms = arms[:r.int(1, 2)] + [(("wild",), self.block(1, d))]
        return S("match", (scrut, tuple(arms)))

    # ---- early-exit stress: a loop body that declares a (usually shadowing) name and leaves through a
    #      break/continue nested inside if / match wrappers
    def loop_body(self, d) -> Block:
        if self.k.exit_stress and self.r.bool(0.85):
            return self.exit_stress_body(d)
        if self.k.early_exit and self.k.early_exit_bias and self.r.bool(0.5):
            return self.exit_stress_body(d)
        return self.block_in_scope(self.r.int(1, 3), d)

    def shadowing_decl(self) -> list:
        r = self.r
        t = r.choice([INT, STR, INT])
        e = self.expr(t, 1)
        name = None
        if self.k.shadowing and r.bool(0.8):
            cur = self.scopes[-1]
            outer = [n for sc in self.scopes[:-1] for n, b in sc.items()
                     if n not in cur and b.kind != "counter" and n != "fuel" and not n.startswith("f")]
            if outer:
                name = r.choice(outer)
        b = self.declare(t, name=name)
        return [S("let", (b, self.maybe_hint(t), e)), S("print", (E("var", (b,), t),))]

    def exit_stress_body(self, d) -> Block:
        r = self.r
        out = []
        if r.bool(0.8):
            out += self.shadowing_decl()
        out.append(self.exit_wrapper(r.int(1, 2)))
        out += self.stmts(r.int(0, 2), max(0, d))
        return Block(out)

    def exit_wrapper(self, depth) -> S:
        """if / match wrapper (nested `depth` deep) whose innermost block ends in break or continue."""
        r = self.r

        def inner_block():
            self.push()
            st = []
            if r.bool(0.5):
                st += self.shadowing_decl()
            if depth > 1:
                st.append(self.exit_wrapper(depth - 1))
            else:
                st.append(S(r.choice(["break", "continue"]), ()))
            self.pop()
            return Block(st)

        kind = r.choice(["if", "match", "match", "else"])
        stress = self.k.exit_stress
        if kind == "if":
            c = E("bool", (True,), BOOL) if (stress and r.bool(0.6)) else self.expr(BOOL, 1)
            return S("if", (c, inner_block(), None))
        if kind == "else":
            self.push()
            other = Block([S("print", (self.expr(STR, 1),))])
            self.pop()
            c = E("bool", (False,), BOOL) if (stress and r.bool(0.6)) else self.expr(BOOL, 1)
            return S("if", (c, other, inner_block()))
        pt = r.choice([INT, STR])
        scrut = self.expr(TOption(pt), 1)
        if stress and r.bool(0.6):
            scrut = E("some", (self.lit(pt),), TOption(pt)) if r.bool() else E("none", (), TOption(pt))
        self.push()
        pb = self.declare(pt, "pattern")
        some_blk = inner_block() if r.bool(0.6) else Block([S("print", (E("var", (pb,), pt),))])
        self.pop()
        none_blk = inner_block() if (r.bool(0.6) or some_blk.stmts[-1].kind == "print") else Block([])
        arms = [(("some", pb), some_blk), (("none",), none_blk)]
        if r.bool(0.3):
            arms.reverse()
        return S("match", (scrut, tuple(arms)))

    def block(self, n, depth) -> Block:
        self.push()
        b = self.block_in_scope(n, depth)
        self.pop()
        return b

    def block_in_scope(self, n, depth) -> Block:
        return Block(self.stmts(n, max(0, depth)))

    def fun_body(self, rt, depth, small=False) -> Block:
        n = self.r.int(0, 2 if small else 4)
        st = self.stmts(n, depth)
        if st and st[-1].kind in ("return", "throw", "break", "continue"):
            # unreachable tail value still required syntactically for typed functions
            pass
        # a block's value is its last expression, so a Unit function ends with an explicit Unit
        v = E("unit", (), UNIT) if rt == UNIT else self.expr(rt, 2)
        return Block(st, v)

    def gen_fun(self, idx) -> FunDef:
        r = self.r
        name = f"f{idx}"
        fuel = r.bool(0.2)
        pts = [INT] if fuel else []
        pts += [self.gen_type(1) for _ in range(r.int(0, 2))]
        rt = r.choice([INT, INT, STR, BOOL, UNIT, TList(INT), TOption(INT)])
        fd = FunDef(name, [], rt, Block([]), pure=False, fuel=fuel)
        self.scopes = [{}]
        self.loop_depth = 0
        params = [self.declare(pt, "param", name=("fuel" if (fuel and i == 0) else None)) for i, pt in enumerate(pts)]
        if fuel:
            params[0].assignable = False
        fd.params = params
        self.in_fun, self.fun_ret = fd, rt
        if fuel:
            # if fuel <= 0 { return base }  ...  recursive call with fuel - 1 somewhere in the tail value
            base = None if rt == UNIT else self.expr(rt, 1, pure=True)
            self.push()
            guard_blk = Block([S("return", (base,))])
            self.pop()
            guard = S("if", (E("bin", ("<=", E("var", (params[0],), INT), E("int", (0,), INT)), BOOL), guard_blk, None))
            body = self.fun_body(rt, self.k.max_depth - 1)
            rec_args = [E("bin", ("-", E("var", (params[0],), INT), E("int", (1,), INT)), INT)]
            rec_args += [self.expr(p.type, 1, pure=True) for p in params[1:]]
            rec = E("call", (fd, tuple(rec_args)), rt, False)
            body.stmts = [guard] + body.stmts
            if rt == UNIT:
                body.stmts.append(S("expr", (rec,)))
                body.value = E("unit", (), UNIT)
            elif rt == INT:
                body.value = E("bin", ("+", body.value, rec), INT, False)
            else:
                b = Binder("rec_res", rt)
                body.stmts.append(S("let", (b, None, rec)))
        else:
            body = self.fun_body(rt, self.k.max_depth - 1)
        fd.body = body
        fd.pure = False  # conservative: functions may print or fail
        self.in_fun, self.fun_ret = None, None
        return fd

    def program(self) -> Program:
        r = self.r
        nf = r.int(0, self.k.max_funs)
        for i in range(nf):
            self.funs.append(self.gen_fun(i))
        self.scopes = [{}]
        self.loop_depth = 0
        self.in_fun, self.fun_ret = None, None
        main = Block(self.stmts(r.int(2, self.k.max_stmts), self.k.max_depth))
        if main.stmts and main.stmts[-1].kind not in ("break", "continue", "return"):
            # epilogue: make the final top-level state observable
            for b in list(self.scopes[0].values()):
                if isinstance(b.type, tuple) and b.type[0] == "Fun":
                    if not b.type[1] and b.type[2] != UNIT:
                        main.stmts.append(S("print", (E("callv", (b, ()), b.type[2], False),)))
                    continue
                main.stmts.append(S("print", (E("var", (b,), b.type),)))
        return Program(self.funs, main, self.uses_color)


def block_pure(b: Block) -> bool:
    def sp(s):
        if s.kind == "let":
            return s.args[2].pure
        return False
    return all(sp(s) for s in b.stmts) and (b.value is None or b.value.pure)


# ---------------------------------------------------------------------------------- printer

class Printer:
    """Prints a Program as canonical source; records byte spans (text is ASCII) on every node."""

    def __init__(self, indent="  "):
        self.buf = []
        self.pos = 0
        self.ind = 0
        self.indent = indent

    def w(self, s: str):
        self.buf.append(s)
        self.pos += len(s)

    def nl(self):
        self.w("\n" + self.indent * self.ind)

    def text(self):
        return "".join(self.buf)

    # ---- expressions
    def expr(self, e: E, paren_if_bin=False):
        start = self.pos
        k = e.kind
        if k == "int":
            n = e.args[0]
            if n < 0:
                self.w(f"({n})")
            else:
                self.w(str(n))
        elif k == "bool":
            self.w("True" if e.args[0] else "False")
        elif k == "str":
            self.w('"' + e.args[0].replace("\\", "\\\\").replace('"', '\\"').replace("\n", "\\n") + '"')
        elif k == "unit":
            self.w("Unit")
        elif k == "var":
            self.w(e.args[0].name)
        elif k == "bin":
            op, l, r = e.args
            if paren_if_bin:
                self.w("(")
            self.expr(l, True)
            self.w(f" {op} ")
            self.expr(r, True)
            if paren_if_bin:
                self.w(")")
        elif k == "callb":
            name, args = e.args
            self.w(name + "(")
            self.args(args)
            self.w(")")
        elif k == "call":
            f, args = e.args
            self.w(f.name + "(")
            self.args(args)
            self.w(")")
        elif k == "callv":
            b, args = e.args
            self.w(b.name + "(")
            self.args(args)
            self.w(")")
        elif k == "method":
            recv, name, args = e.args
            self.expr(recv, True)
            self.w("." + name + "(")
            self.args(args)
            self.w(")")
        elif k == "list":
            self.w("[")
            self.args(e.args[0])
            self.w("]")
        elif k == "tuple":
            self.w("(")
            self.args(e.args[0])
            if len(e.args[0]) == 1:
                self.w(",")
            self.w(")")
        elif k == "some":
            self.w("Some(")
            self.expr(e.args[0])
            self.w(")")
        elif k == "none":
            self.w("None")
        elif k == "ok":
            self.w("Ok(")
            self.expr(e.args[0])
            self.w(")")
        elif k == "err":
            self.w("Err(")
            self.expr(e.args[0])
            self.w(")")
        elif k == "variant":
            name, payload = e.args
            self.w(name)
            if payload is not None:
                self.w("(")
                self.expr(payload)
                self.w(")")
        elif k == "if":
            c, tb, eb = e.args
            if paren_if_bin:
                self.w("(")
            self.w("if ")
            self.expr(c)
            self.w(" ")
            self.block(tb)
            self.w(" else ")
            self.block(eb)
            if paren_if_bin:
                self.w(")")
        elif k == "match":
            scrut, arms = e.args
            if paren_if_bin:
                self.w("(")
            self.match(scrut, arms)
            if paren_if_bin:
                self.w(")")
        elif k == "lambda":
            params, rt, body = e.args
            self.w("fun(")
            for i, p in enumerate(params):
                if i:
                    self.w(", ")
                s = self.pos
                self.w(p.name)
                p.def_span = (s, self.pos)
                self.w(": " + hint(p.type))
            self.w(")")
            self.w(": " + hint(rt))
            self.w(" ")
            self.block(body)
        else:
            raise ValueError(k)
        e.span = (start, self.pos)

    def args(self, args):
        for i, a in enumerate(args):
            if i:
                self.w(", ")
            self.expr(a)

    def pattern(self, p):
        k = p[0]
        if k == "some":
            self.w("Some(")
            s = self.pos
            self.w(p[1].name)
            p[1].def_span = (s, self.pos)
            self.w(")")
        elif k == "none":
            self.w("None")
        elif k == "ok":
            self.w("Ok(")
            s = self.pos
            self.w(p[1].name)
            p[1].def_span = (s, self.pos)
            self.w(")")
        elif k == "err":
            self.w("Err(")
            s = self.pos
            self.w(p[1].name)
            p[1].def_span = (s, self.pos)
            self.w(")")
        elif k == "variant":
            self.w(p[1])
            if p[2] is not None:
                self.w("(")
                s = self.pos
                self.w(p[2].name)
                p[2].def_span = (s, self.pos)
                self.w(")")
        elif k == "wild":
            self.w("_")

    def match(self, scrut, arms):
        self.w("match ")
        self.expr(scrut)
        self.w(" {")
        self.ind += 1
        for pat, blk in arms:
            self.nl()
            self.pattern(pat)
            self.w(" => ")
            self.block(blk)
        self.ind -= 1
        self.nl()
        self.w("}")

    # ---- blocks and statements
    def block(self, b: Block):
        start = self.pos
        self.w("{")
        self.ind += 1
        for s in b.stmts:
            self.nl()
            self.stmt(s)
        if b.value is not None:
            self.nl()
            self.expr(b.value)
        self.ind -= 1
        self.nl()
        self.w("}")
        b.span = (start, self.pos)

    def decl(self, b: Binder):
        s = self.pos
        self.w(b.name)
        b.def_span = (s, self.pos)

    def stmt(self, s: S):
        start = self.pos
        k = s.kind
        if k == "let":
            b, h, e = s.args
            self.w("let ")
            self.decl(b)
            if h is not None:
                self.w(": " + hint(h))
            self.w(" = ")
            self.expr(e)
        elif k == "letd":
            bs, e = s.args
            self.w("let (")
            for i, b in enumerate(bs):
                if i:
                    self.w(", ")
                self.decl(b)
            self.w(") = ")
            self.expr(e)
        elif k == "assign":
            b, e = s.args
            self.w(b.name + " = ")
            self.expr(e)
        elif k == "addassign":
            b, op, e = s.args
            self.w(f"{b.name} {op} ")
            self.expr(e)
        elif k == "print":
            (e,) = s.args
            self.w("println(")
            if e.type == STR:
                self.expr(e)
            else:
                self.w("string_repr(")
                self.expr(e)
                self.w(")")
            self.w(")")
        elif k == "expr":
            self.expr(s.args[0])
        elif k == "if":
            c, tb, eb = s.args
            self.w("if ")
            self.expr(c)
            self.w(" ")
            self.block(tb)
            if eb is not None:
                self.w(" else ")
                self.block(eb)
        elif k == "for":
            dest, le, body = s.args
            self.w("for ")
            if isinstance(dest, tuple):
                self.w("(")
                for i, b in enumerate(dest):
                    if i:
                        self.w(", ")
                    self.decl(b)
                self.w(")")
            else:
                self.decl(dest)
            self.w(" in ")
            self.expr(le)
            self.w(" ")
            self.block(body)
        elif k == "while":
            cb, limit, extra, body = s.args
            self.w("let ")
            self.decl(cb)
            self.w(" = 0")
            self.nl()
            if extra is not None:
                # fully parenthesised: operators have uniform precedence
                self.w(f"while ({cb.name} < {limit}) && (")
                self.expr(extra)
                self.w(")")
            else:
                self.w(f"while {cb.name} < {limit}")
            self.w(" {")
            self.ind += 1
            self.nl()
            self.w(f"{cb.name} += 1")
            for st in body.stmts:
                self.nl()
                self.stmt(st)
            self.ind -= 1
            self.nl()
            self.w("}")
        elif k == "match":
            scrut, arms = s.args
            self.match(scrut, arms)
        elif k == "break":
            self.w("break")
        elif k == "continue":
            self.w("continue")
        elif k == "return":
            if s.args[0] is None:
                self.w("return")
            else:
                self.w("return ")
                self.expr(s.args[0])
        elif k == "assert":
            self.w("assert(")
            self.expr(s.args[0])
            self.w(")")
        elif k == "throw":
            self.w("throw(")
            self.expr(s.args[0])
            self.w(")")
        elif k == "probe":
            # a read of a name: of the given binder, or (binder None) of a name that is dead here
            self.w(f"println(string_repr({s.args[0]}))")
        else:
            raise ValueError(k)
        s.span = (start, self.pos)

    def fundef(self, f: FunDef):
        start = self.pos
        self.w("fun ")
        s = self.pos
        self.w(f.name)
        f.name_span = (s, self.pos)
        self.w("(")
        for i, p in enumerate(f.params):
            if i:
                self.w(", ")
            self.decl(p)
            self.w(": " + hint(p.type))
        self.w(")")
        self.w(": " + hint(f.ret))
        self.w(" ")
        self.block(f.body)
        f.span = (start, self.pos)

    def program(self, p: Program) -> str:
        if p.uses_color:
            self.w("enum Color {\n  Red,\n  Green,\n  Custom(Int),\n}\n\n")
        for f in p.funs:
            self.fundef(f)
            self.w("\n\n")
        for s in p.main.stmts:
            self.stmt(s)
            self.w("\n")
        return self.text()


def generate(r, knobs: Optional[Knobs] = None) -> tuple:
    g = Gen(r, knobs)
    prog = g.program()
    pr = Printer()
    src = pr.program(prog)
    return prog, src


# ---------------------------------------------------------------------------------- walking

def walk_expr(e: E):
    yield e
    k, a = e.kind, e.args
    if k == "bin":
        yield from walk_expr(a[1])
        yield from walk_expr(a[2])
    elif k in ("callb", "call", "callv"):
        for x in a[1]:
            yield from walk_expr(x)
    elif k == "method":
        yield from walk_expr(a[0])
        for x in a[2]:
            yield from walk_expr(x)
    elif k in ("list", "tuple"):
        for x in a[0]:
            yield from walk_expr(x)
    elif k in ("some", "ok", "err"):
        yield from walk_expr(a[0])
    elif k == "variant":
        if a[1] is not None:
            yield from walk_expr(a[1])
    elif k == "if":
        yield from walk_expr(a[0])
        yield from walk_block(a[1])
        yield from walk_block(a[2])
    elif k == "match":
        yield from walk_expr(a[0])
        for _, b in a[1]:
            yield from walk_block(b)
    elif k == "lambda":
        yield from walk_block(a[2])


def walk_block(b: Block):
    yield b
    for s in b.stmts:
        yield from walk_stmt(s)
    if b.value is not None:
        yield from walk_expr(b.value)


def walk_stmt(s: S):
    yield s
    k, a = s.kind, s.args
    if k == "let":
        yield from walk_expr(a[2])
    elif k == "letd":
        yield from walk_expr(a[1])
    elif k == "assign":
        yield from walk_expr(a[1])
    elif k == "addassign":
        yield from walk_expr(a[2])
    elif k in ("print", "expr", "assert", "throw"):
        yield from walk_expr(a[0])
    elif k == "if":
        yield from walk_expr(a[0])
        yield from walk_block(a[1])
        if a[2] is not None:
            yield from walk_block(a[2])
    elif k == "for":
        yield from walk_expr(a[1])
        yield from walk_block(a[2])
    elif k == "while":
        if a[2] is not None:
            yield from walk_expr(a[2])
        yield from walk_block(a[3])
    elif k == "match":
        yield from walk_expr(a[0])
        for _, b in a[1]:
            yield from walk_block(b)
    elif k == "return":
        if a[0] is not None:
            yield from walk_expr(a[0])


def walk_program(p: Program):
    for f in p.funs:
        yield f
        yield from walk_block(f.body)
    yield from walk_block(p.main)


def features(p: Program) -> set:
    """Static features used by the non-triviality rules."""
    fs = set()

    def scan_block(b, in_loop):
        for s in b.stmts:
            scan_stmt(s, in_loop)
        if b.value is not None:
            scan_expr(b.value, in_loop)

    def scan_expr(e, in_loop):
        for x in walk_expr(e):
            if isinstance(x, E):
                if x.kind == "callv":
                    fs.add("closure-call")
                if x.kind == "lambda":
                    fs.add("lambda")
                if x.kind == "match":
                    fs.add("match")
                    if any(p[0] in ("some", "ok", "err") or (p[0] == "variant" and p[2] is not None) for p, _ in x.args[1]):
                        fs.add("match-payload")
                if x.kind == "call":
                    fs.add("call")
                    if x.args[0].fuel:
                        fs.add("recursion")
            elif isinstance(x, S):
                note_stmt(x, in_loop)

    def note_stmt(s, in_loop):
        if s.kind in ("break", "continue"):
            fs.add("loop-early-exit")
        if s.kind == "return" and in_loop:
            fs.add("loop-early-exit")
        if s.kind == "return":
            fs.add("return")
        if s.kind in ("for", "while"):
            fs.add("loop")
        if s.kind == "match" and any(p[0] in ("some", "ok", "err") or (p[0] == "variant" and p[2] is not None)
                                       for p, _ in s.args[1]):
            fs.add("match-payload")
        if s.kind == "assign" or s.kind == "addassign":
            fs.add("assign")

    def scan_stmt(s, in_loop):
        note_stmt(s, in_loop)
        k, a = s.kind, s.args
        if k in ("for", "while"):
            if k == "for":
                scan_expr(a[1], in_loop)
                scan_block(a[2], True)
            else:
                scan_block(a[3], True)
        elif k == "if":
            scan_expr(a[0], in_loop)
            scan_block(a[1], in_loop)
            if a[2] is not None:
                scan_block(a[2], in_loop)
        elif k == "match":
            scan_expr(a[0], in_loop)
            for _, b in a[1]:
                scan_block(b, in_loop)
        else:
            for x in walk_stmt(s):
                if isinstance(x, E):
                    if x.kind == "callv":
                        fs.add("closure-call")
                    if x.kind == "lambda":
                        fs.add("lambda")
                    if x.kind == "call":
                        fs.add("call")
                        if x.args[0].fuel:
                            fs.add("recursion")
                    if x.kind == "match":
                        fs.add("match")
                        if any(p[0] in ("some", "ok", "err") or (p[0] == "variant" and p[2] is not None)
                               for p, _ in x.args[1]):
                            fs.add("match-payload")
                elif isinstance(x, S) and x is not s:
                    note_stmt(x, in_loop)

    for f in p.funs:
        scan_block(f.body, False)
    scan_block(p.main, False)
    return fs
