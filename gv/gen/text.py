"""Source-text generators: arbitrary Unicode (G-text), token soup (G-tokens),
mutations of valid programs (G-mutate) and the seed corpus."""
from __future__ import annotations

import json
import os

from ..core import VERIF

KEYWORDS = ["let", "fun", "enum", "struct", "import", "if", "else", "while", "return", "test", "match",
            "break", "continue", "for", "in", "assert", "as", "method", "public", "shared", "try", "catch"]
TWO_CHAR = ["==", "!=", ">=", "<=", "&&", "||", "+=", "-=", "**", "+.", "-.", "*.", "/.", "=>", "::"]
ONE_CHAR = list("+-*/%^=<>&|(){},[].:")
IDENTS = ["x", "y", "foo", "bar_1", "_", "__placeholder", "f", "self", "println", "dbg", "True", "False",
          "None", "Some", "Ok", "Err", "Unit", "todo", "throw", "string_repr"]
TYPES = ["Int", "String", "Bool", "List", "Option", "Result", "Unit", "NoValue", "Any", "T", "Fun", "Dict",
         "Tuple", "Float", "Foo"]
NUMS = ["0", "1", "-1", "42", "1_000", "1.5", "-0.5", "9223372036854775807", "9223372036854775808",
        "-9223372036854775808", "99999999999999999999999", "1__2", "1.", "0.0", "1e5", "0x10", "1.5.2"]
STRINGS = ['""', '"a"', '"a b"', '"\\n"', '"\\""', '"\\\\"', '"{"', '"é"', '"☃😀"', '"a\nb"', '"unterminated',
           '"ends with backslash\\"', '"\\q"', '"//"', '"\t"']
COMMENTS = ["// c\n", "//\n", "// a=b\n", "/// doc\n", "// é☃\n", "// {\n", '// "\n', "// arguments: x\n", "//"]
NONASCII = ["é", "☃", "😀", "\u00a0", "\u2028", "\u3000", "\ufeff", "\u0301", "ß", "中", "\u200b", "\u0085", "\u1680"]
WS = [" ", " ", " ", "\n", "\n", "  ", "\t", "\r\n", "\r", "", "", "\n\n", "\u000b", "\u000c"]
SHEBANG = "#!/usr/bin/env garden\n"

_corpus = None


def corpus() -> list:
    global _corpus
    if _corpus is None:
        with open(os.path.join(VERIF, "corpus", "seed_programs.json"), encoding="utf-8") as f:
            _corpus = json.load(f)
    return _corpus


def g_text(r, maxlen=60) -> str:
    """Arbitrary Unicode text drawn from several alphabets."""
    kind = r.int(0, 5)
    n = r.int(0, maxlen)
    if kind == 0:
        alpha = "ab1 \n(){}[]=\"/+-.,:<>"
    elif kind == 1:
        alpha = "aé☃😀 \n\"/(\u00a0\u2028"
    elif kind == 2:
        alpha = "".join(chr(c) for c in range(0x20, 0x7F)) + "\n\t\r"
    elif kind == 3:
        alpha = "".join(NONASCII) + " a\n"
    elif kind == 4:
        alpha = "".join(chr(c) for c in range(0, 0x20)) + "a \x7f"
    else:
        alpha = None
    if alpha is not None:
        return "".join(alpha[r.int(0, len(alpha) - 1)] for _ in range(n))
    from hypothesis import strategies as st
    return r.draw(st.text(alphabet=st.characters(exclude_categories=("Cs",)), max_size=maxlen))


def g_token(r) -> str:
    k = r.int(0, 11)
    if k == 0:
        return r.choice(IDENTS)
    if k == 1:
        return r.choice(KEYWORDS)
    if k == 2:
        return r.choice(ONE_CHAR)
    if k == 3:
        return r.choice(TWO_CHAR)
    if k == 4:
        return r.choice(NUMS)
    if k == 5:
        return r.choice(STRINGS)
    if k == 6:
        return r.choice(TYPES)
    if k == 7:
        return r.choice(COMMENTS)
    if k == 8:
        return r.choice(["(", ")", "{", "}", "[", "]", ",", ".", "::", "=>", ":"])
    if k == 9:
        return r.choice(NONASCII)
    if k == 10:
        return r.choice(["fun f(", "let x =", "if x {", "} else {", "match x {", "Some(y) =>", "test t {",
                         "method m(this: Foo)", "struct Foo {", "enum E {", "import \"./a.gdn\"", "x.y(", "a::b",
                         "fun<T>(", "for x in", "while True {", "try {", "} catch e {", "public fun", "Foo{ x: 1 }",
                         "Dict[", "assert(", "return", "let (a, b) ="])
    return r.choice(IDENTS)


def g_tokens(r, maxn=40) -> str:
    n = r.int(0, maxn)
    parts = []
    if r.int(0, 30) == 30:
        parts.append(SHEBANG)
    for _ in range(n):
        parts.append(g_token(r))
        parts.append(r.choice(WS))
    s = "".join(parts)
    if r.int(0, 5) == 5 and s:
        # truncate in the middle (on a char boundary; Python strings are code points)
        s = s[: r.int(0, len(s))]
    return s


def tokenize_rough(src: str) -> list:
    """A rough tokeniser used only to pick mutation points (not an oracle)."""
    import re
    return re.findall(r'"(?:\\.|[^"\\])*"?|//[^\n]*\n?|[A-Za-z_][A-Za-z0-9_]*|-?\d[\d_]*(?:\.\d[\d_]*)?|'
                      r'==|!=|>=|<=|&&|\|\||\+=|-=|\*\*|\+\.|-\.|\*\.|/\.|=>|::|\s+|.', src, re.S)


def g_mutate(r, src: str, maxk=5) -> str:
    toks = tokenize_rough(src)
    k = r.int(1, maxk)
    for _ in range(k):
        if not toks:
            toks = [g_token(r)]
            continue
        op = r.int(0, 8)
        i = r.int(0, len(toks) - 1)
        if op == 0:
            del toks[i]
        elif op == 1:
            toks.insert(i, toks[i])
        elif op == 2:
            j = r.int(0, len(toks) - 1)
            toks[i], toks[j] = toks[j], toks[i]
        elif op == 3:
            toks.insert(i, g_token(r))
        elif op == 4:
            toks.insert(i, r.choice(NONASCII))
        elif op == 5:
            other = tokenize_rough(r.choice(corpus())["src"])
            if other:
                a = r.int(0, len(other) - 1)
                b = min(len(other), a + r.int(1, 12))
                toks[i:i] = other[a:b]
        elif op == 6:
            toks = toks[:i]
        elif op == 7:
            toks[i] = g_token(r)
        else:
            toks.insert(i, r.choice(WS + ["\n", "\n"]))
    return "".join(toks)


def g_nest(r) -> str:
    """Deeply nested constructs (bounded so that the parser's recursion is exercised without
    reaching sizes where any recursive-descent parser would exhaust the stack)."""
    n = r.choice([5, 20, 60, 150])
    kind = r.int(0, 7)
    if kind == 0:
        return "(" * n + "1" + ")" * r.int(0, n)
    if kind == 1:
        return "[" * n + "]" * r.int(0, n)
    if kind == 2:
        return "if x { " * n + "}" * r.int(0, n)
    if kind == 3:
        return "fun() { " * n + "}" * r.int(0, n)
    if kind == 4:
        return "let x: " + "List<" * n + "Int" + ">" * r.int(0, n) + " = 1"
    if kind == 5:
        return "f(" * n + ")" * r.int(0, n)
    if kind == 6:
        return "1" + " + 1" * n
    return "x" + ".f()" * n
