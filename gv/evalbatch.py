"""Batch evaluation through the real CLI (`garden run`).

`eval_cases` runs many small independent snippets in as few processes as possible: each snippet is
preceded by a marker line; when a snippet raises a Garden error (which ends the process) or crashes,
the outcome is attributed to the last marker printed and the remaining snippets run in a new process.
"""
from __future__ import annotations

import re
from dataclasses import dataclass

from .core import run_garden, Run

MARK = "@@gv@@"


@dataclass
class Outcome:
    kind: str          # ok | err | crash | timeout | parse_error
    out: str = ""      # stdout produced by the snippet
    msg: str = ""      # error message (err), crash signature (crash), stderr (parse_error)
    stderr: str = ""


_ERR_RE = re.compile(r"^(?:Exception|Error): (.*?)(?=^-\| |\Z)", re.S | re.M)


def error_message(stderr: str) -> str:
    m = _ERR_RE.search(stderr)
    if not m:
        return stderr.strip()[:300]
    return m.group(1).rstrip("\n")


def _split(stdout: str):
    """-> list of (index, text) in order of appearance."""
    parts = stdout.split(MARK)
    res = []
    for p in parts[1:]:
        nl = p.find("\n")
        if nl < 0:
            idx, text = p, ""
        else:
            idx, text = p[:nl], p[nl + 1:]
        try:
            res.append((int(idx), text))
        except ValueError:
            pass
    return res


def eval_cases(ctx, cases, prelude: str = "", timeout: float = 30.0, cmd=("run",)) -> list:
    n = len(cases)
    results = [None] * n
    start = 0
    single = False
    while start < n:
        end = start + 1 if single else n
        body = []
        for i in range(start, end):
            body.append(f'println("{MARK}{i}")\n{cases[i]}\n')
        path = ctx.scratch.file(prelude + "\n" + "".join(body))
        r: Run = run_garden(list(cmd) + [path], cwd=ctx.scratch.root, timeout=timeout)
        segs = _split(r.out)
        if not segs and (r.rc != 0 or r.crashed or r.timed_out):
            # nothing ran: parse error (or crash before the first snippet)
            if end - start == 1:
                kind = "crash" if r.crashed else ("timeout" if r.timed_out else "parse_error")
                results[start] = Outcome(kind, "", r.crash_sig() if r.crashed else r.err[:600], r.err)
                start += 1
                single = False
            else:
                single = True
            continue
        failed = r.crashed or r.timed_out or bool(re.search(r"^(?:Exception|Error): ", r.err, re.M))
        for k, (i, text) in enumerate(segs):
            last = k == len(segs) - 1
            if last and failed:
                if r.crashed:
                    results[i] = Outcome("crash", text, r.crash_sig(), r.err)
                elif r.timed_out:
                    results[i] = Outcome("timeout", text, "timeout", r.err)
                else:
                    results[i] = Outcome("err", text, error_message(r.err), r.err)
                start = i + 1
            else:
                results[i] = Outcome("ok", text)
        if not failed:
            start = end
        single = False
    return results


def expr_case(expr: str) -> str:
    return f"println(string_repr({expr}))"
