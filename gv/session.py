"""Driving the real JSON session (`garden reftest-json-session FILE`): one request per line in, a stream of
pretty-printed JSON values out (one per `printed` chunk and one per request)."""
from __future__ import annotations

import json

from .core import run_garden, Run


def req_run(src: str, path: str | None = None) -> dict:
    d = {"method": "run", "input": src}
    if path:
        d["path"] = path
    return d


def parse_stream(out: str) -> tuple:
    """-> (values, leftover). Uses raw_decode to split concatenated pretty JSON."""
    dec = json.JSONDecoder()
    vals = []
    i = 0
    n = len(out)
    while i < n:
        while i < n and out[i].isspace():
            i += 1
        if i >= n:
            break
        try:
            v, j = dec.raw_decode(out, i)
        except json.JSONDecodeError:
            return vals, out[i:]
        vals.append(v)
        i = j
    return vals, ""


class SessionResult:
    def __init__(self, run: Run, values: list, leftover: str):
        self.run = run
        self.values = values
        self.leftover = leftover

    def responses(self):
        """Group the stream into per-request answers: [(printed_stdout, printed_stderr, response)]."""
        res = []
        out, err = "", ""
        for v in self.values:
            kind = v.get("kind", {})
            if isinstance(kind, dict) and "printed" in kind:
                out += kind["printed"]["s"]
            elif isinstance(kind, dict) and "printed_stderr" in kind:
                err += kind["printed_stderr"]["s"]
            else:
                res.append((out, err, v))
                out, err = "", ""
        return res


def run_session(ctx, requests: list, timeout: float = 60.0, env=None, raw_lines=None) -> SessionResult:
    """requests: list of dicts (serialised as one JSON line each); raw_lines overrides (list of str)."""
    lines = raw_lines if raw_lines is not None else [json.dumps(r) for r in requests]
    path = ctx.scratch.file("\n".join(lines) + "\n", name=None)
    path2 = path[:-4] + ".jsonl"
    import os
    os.rename(path, path2)
    r = run_garden(["reftest-json-session", path2], cwd=ctx.scratch.root, timeout=timeout, env=env)
    vals, left = parse_stream(r.out)
    return SessionResult(r, vals, left)


def summarize(resp: dict) -> tuple:
    """-> (tag, text, position) for one response value.
    tag: value | error | command | malformed | interrupted | ready"""
    kind = resp.get("kind")
    if not isinstance(kind, dict):
        return ("other", json.dumps(resp)[:200], None)
    if "evaluate" in kind:
        v = kind["evaluate"]["value"]
        if "Ok" in v:
            return ("value", v["Ok"], None)
        errs = v["Err"]
        e = errs[0] if errs else {}
        pos = e.get("position")
        p = None
        if pos:
            p = (pos.get("start_offset"), pos.get("end_offset"), pos.get("line_number"))
        # parse errors are reported without a stack frame name; runtime errors carry one
        if kind["evaluate"].get("stack_frame_name") is None:
            return ("parse_error", e.get("message"), p)
        return ("error", e.get("message"), p)
    if "run_command" in kind:
        return ("command", kind["run_command"]["message"], None)
    if "malformed_request" in kind:
        return ("malformed", kind["malformed_request"]["message"], None)
    if "interrupted" in kind:
        return ("interrupted", "", None)
    if "ready" in kind:
        return ("ready", "", None)
    return ("other", json.dumps(resp)[:200], None)
