"""C02 — evaluation ends in a value or a Garden error, never a crash."""
from __future__ import annotations

import itertools
import os
import re
import zlib

from ..core import REPO, Res, Sub, fail, run_garden
from ..evalbatch import eval_cases
from ..model import arith as A

PROPERTY_ID = "C02"
LEVEL = "exploration"
RULE = ("(a) every public function of the prelude and of the built-in files __fs/__shell/__random/__reflect/__time "
        "(names and arities read from the sources at run time, so new built-ins are picked up) with 0, 1 and (hashed "
        "sample) 2 and 3 arguments drawn from a pool of ~30 values covering every value kind (Int incl. i64 limits, "
        "Float, String incl. empty / multi-byte, Bool, Unit, lists (incl. lists and dicts whose elements have different types), tuples, dict, Option, Result, struct, closure, "
        "named function, enum constructor, namespace); (b) every method name known to the prelude on every pool "
        "value as receiver with 0..2 arguments; (c) all 21 binary operators and += / -= over all ordered pairs of pool "
        "values; (d) values nested 10..50 000 deep (list / tuple / Some), printed, compared and dropped. Effects are "
        "confined: scratch working directory, path arguments are relative names in it, shell::run only sees `true`, "
        "`echo` and a non-existent command. Oracle: the process never exits 101 / by signal, never prints `panicked "
        "at` (a call that does not return within the watchdog, or that exhausts the 2 GB memory limit every child "
        "process runs under, is inconclusive: termination of built-ins is C32's subject). Non-trivial = the call got past arity checking (it returned "
        "a value or an error that is not an arity error); distinct = distinct call text.")
ASSUMPTIONS = ["a Garden-level error of any kind is an allowed outcome; only crashes and hangs are violations"]
MANIFEST = dict(
    category="exploration",
    technique="exhaustive / sampled argument exploration of every built-in function, method and operator over a "
              "value pool covering all value kinds; no-crash oracle",
    text="~6 500 (quick) / 150 000 (thorough) calls of built-ins and operators evaluated by the real interpreter; any "
         "panic, abort or hang is a violation.",
    note="Trusted: the runner's crash detection (exit status, stderr); effect confinement by the scratch directory.",
    ref="DESIGN.md section 3, C02",
)

PRELUDE = ('import "__fs.gdn" as fs\nimport "__shell.gdn" as shell\nimport "__random.gdn" as random\n'
           'import "__reflect.gdn" as reflect\nimport "__time.gdn" as time\n'
           'struct Pt { x: Int, label: String }\nenum Sh { Dot, Circle(Int) }\n'
           'fun named_fun(a: Int): Int { a }\n')

POOL = [
    "0", "1", "(-1)", "9223372036854775807", "(-9223372036854775807 - 1)", "64", "1.5", "0.0", "(-2.5)",
    '""', '"a"', '"é☃😀"', '"gv_rel_file"', '"a\\nb,c"', '"true"', '"echo"', '"no_such_command_gv"',
    "True", "False", "Unit", "[]", "[1, 2]", '["a", "echo"]', "[[1], []]", '(1, "a")', "()", "(1,)",
    'Dict["k" => 1]', "Dict[]", "Some(1)", "None", 'Ok("v")', 'Err("e")', 'Pt{ x: 1, label: "l" }',
    'Path{ p: "gv_rel_file" }', 'Path{ p: "" }', 'Path{ p: "gv_rel_dir" }', "fun(x) { x }", "fun() { 1 }", "named_fun",
    "println", "Some", "Circle", "Dot", "fs", "[1.5, 2.5]", "[Some(1), None]",
    # containers whose recorded element type (taken from one element) does not describe every element
    '[1, "a"]', '["a", 1]', '[1, 2].append("b")', '["a"].append(1)', "[None, 1]", '[[1], "x"]',
    'Dict["a" => 1, "b" => "s"]', 'Dict["a" => "s", "b" => 1]', "[fun(x) { x }, 1]", '[(1, "a"), 2]',
]
SMALL_POOL = ['[1, "a"]', '["a", 1]', "0", "(-1)", '""', '"a"', '"é☃😀"', "[]", "[1, 2]", "True", "Unit", "None", "Some(1)", "fun(x) { x }",
              'Path{ p: "gv_rel_file" }', '"gv_rel_file"', "1.5", '(1, "a")', 'Dict["k" => 1]', "9223372036854775807"]


def read_defs():
    funs, methods = [], set()
    src_dir = os.path.join(REPO, "src")
    for fname, ns in (("__prelude.gdn", ""), ("__fs.gdn", "fs::"), ("__shell.gdn", "shell::"),
                      ("__random.gdn", "random::"), ("__reflect.gdn", "reflect::"), ("__time.gdn", "time::")):
        try:
            text = open(os.path.join(src_dir, fname), encoding="utf-8").read()
        except OSError:
            continue
        for m in re.finditer(r"^public fun (\w+)(?:<[^>]*>)?\(([^)]*)\)", text, re.M):
            params = [p for p in m.group(2).split(",") if p.strip()]
            funs.append((ns + m.group(1), len(params)))
        for m in re.finditer(r"^public (?:shared )?method (\w+)(?:<[^>]*>)?\(([^)]*)\)", text, re.M):
            methods.add(m.group(1))
    # built-in methods are declared in the prelude as well; add a few names that only exist natively
    return funs, sorted(methods)


def is_arity_error(msg: str) -> bool:
    return bool(re.search(r"requires \d+ argument|expects \d+ argument|takes \d+ argument", msg))


def check_calls(case, ctx) -> Res:
    calls = case["calls"]
    snippets = [f"let r_{i} = {c}\nprintln(string_repr(r_{i}))" for i, c in enumerate(calls)]
    d = ctx.scratch.dir()
    os.makedirs(os.path.join(d, "gv_rel_dir"), exist_ok=True)
    with open(os.path.join(d, "gv_rel_file"), "w") as f:
        f.write("content")
    # run inside the per-case scratch directory so that file effects stay there
    saved = ctx.scratch.root
    ctx.scratch.root = d
    try:
        outs = eval_cases(ctx, snippets, prelude=PRELUDE, timeout=30)
    finally:
        ctx.scratch.root = saved
    nt = 0
    for c, o in zip(calls, outs):
        if o is None:
            return Res(ok=True, inconclusive=True, detail=f"no outcome for {c}")
        if o.kind == "crash":
            return fail(o.msg, f"`{c}` crashed the interpreter: {o.msg}\n{o.stderr[-400:]}")
        if o.kind == "timeout":
            r = run_garden(["run", "-c", PRELUDE + f"\nlet r = {c}\nprintln(string_repr(r))"], cwd=d, timeout=15)
            if r.timed_out:
                # C02 is about crashes; termination of built-ins is C32's subject, and a call whose work is
                # proportional to an integer argument (`range(0, 9223372036854775807)`) legitimately never ends
                return Res(ok=True, inconclusive=True, detail=f"`{c}` did not return within 15 s")
            if r.crashed:
                return fail(r.crash_sig(), f"`{c}` crashed the interpreter")
            continue
        if o.kind == "parse_error":
            continue
        if o.kind == "ok" or not is_arity_error(o.msg):
            nt += 1
    return Res(ok=True, nontrivial=nt > 0, classes=("calls",), extra=len(calls))


def batches(items, n=50):
    b = []
    for x in items:
        b.append(x)
        if len(b) == n:
            yield {"calls": b}
            b = []
    if b:
        yield {"calls": b}


def keep(text: str, one_in: int) -> bool:
    return zlib.crc32(text.encode()) % one_in == 0


def enum_functions(tier):
    funs, _ = read_defs()
    calls = []
    for name, arity in funs:
        calls.append(f"{name}()")
        for a in POOL:
            calls.append(f"{name}({a})")
        for a, b in itertools.product(SMALL_POOL, repeat=2):
            c = f"{name}({a}, {b})"
            if arity >= 2 or keep(c, 20):
                if tier == "thorough" or keep(c, 12 if arity >= 2 else 6):
                    calls.append(c)
        if arity >= 3:
            for a, b, cc in itertools.product(SMALL_POOL[:8], repeat=3):
                c = f"{name}({a}, {b}, {cc})"
                if tier == "thorough" or keep(c, 8):
                    calls.append(c)
    yield from batches(calls)


def enum_methods(tier):
    _, methods = read_defs()
    calls = []
    for recv in POOL:
        for m in methods:
            calls.append(f"{recv}.{m}()")
            for a in SMALL_POOL:
                c = f"{recv}.{m}({a})"
                if tier == "thorough" or keep(c, 80):
                    calls.append(c)
            for a, b in itertools.product(SMALL_POOL[:10], repeat=2):
                c = f"{recv}.{m}({a}, {b})"
                if keep(c, 4 if tier == "thorough" else 200):
                    calls.append(c)
    yield from batches(calls)


KIND_POOL = {
    "int": ["0", "1", "(-1)", "64", "9223372036854775807", "(-9223372036854775807 - 1)"],
    "float": ["1.5", "0.0", "(-2.5)"],
    "string": ['""', '"a"', '"é☃😀"', '"a\\nb,c"', '"gv_rel_file"', '"echo"'],
    "bool": ["True", "False"],
    "unit": ["Unit"],
    "list": ["[]", "[1, 2]", '["a", "echo"]', "[[1], []]", "[1.5, 2.5]", "[Some(1), None]", '[1, "a"]', '["a", 1]',
             '[1, 2].append("b")', '["a"].append(1)', "[None, 1]", '[[1], "x"]', "[fun(x) { x }, 1]", '[(1, "a"), 2]',
             '[(1, "a"), ("b", 2)]', "[[1], [\"s\"]]"],
    "tuple": ['(1, "a")', "()", "(1,)", '("a", 1)'],
    "dict": ['Dict["k" => 1]', "Dict[]", 'Dict["a" => 1, "b" => "s"]', 'Dict["a" => "s", "b" => 1]'],
    "option": ["Some(1)", "None", 'Some("s")', "Some([1])", "Some(None)"],
    "result": ['Ok("v")', 'Err("e")', "Ok(1)", "Err(1)"],
    "path": ['Path{ p: "gv_rel_file" }', 'Path{ p: "" }', 'Path{ p: "gv_rel_dir" }'],
    "fun": ["fun(x) { x }", "fun() { 1 }", "named_fun", "println", "fun(a, b) { a }", 'fun(x) { "s" }', "fun(x) { throw(\"t\") }"],
    "any": ["0", '"a"', "[1, 2]", "None", "fun(x) { x }", '(1, "a")'],
}


def kind_of_hint(h: str) -> str:
    h = h.strip()
    for pre, k in (("Int", "int"), ("Float", "float"), ("String", "string"), ("Bool", "bool"), ("Unit", "unit"),
                   ("List", "list"), ("(", "tuple"), ("Dict", "dict"), ("Option", "option"), ("Result", "result"),
                   ("Path", "path"), ("Fun", "fun")):
        if h.startswith(pre):
            return k
    return "any"


def split_params(text: str):
    out, depth, cur = [], 0, ""
    for ch in text:
        if ch in "<(":
            depth += 1
        elif ch in ">)":
            depth -= 1
        if ch == "," and depth == 0:
            out.append(cur)
            cur = ""
        else:
            cur += ch
    if cur.strip():
        out.append(cur)
    return out


def read_typed_decls():
    """-> [(call template with {0}.. for receiver/params, [kinds])] from the declarations in the .gdn sources"""
    decls = []
    src_dir = os.path.join(REPO, "src")
    for fname, ns in (("__prelude.gdn", ""), ("__fs.gdn", "fs::"), ("__shell.gdn", "shell::"),
                      ("__random.gdn", "random::"), ("__reflect.gdn", "reflect::"), ("__time.gdn", "time::")):
        try:
            text = open(os.path.join(src_dir, fname), encoding="utf-8").read()
        except OSError:
            continue
        for m in re.finditer(r"^public (?:shared )?(fun|method) (\w+)(?:<[^>]*>)?\((.*?)\)(?::[^{]*)? \{", text, re.M):
            params = [p.split(":", 1)[1] if ":" in p else "" for p in split_params(m.group(3))]
            kinds = [kind_of_hint(p) for p in params]
            if m.group(1) == "method":
                if not kinds:
                    continue
                decls.append(("({0})." + m.group(2) + "(" + ", ".join("{%d}" % (i + 1) for i in range(len(kinds) - 1)) + ")", kinds))
            else:
                decls.append((ns + m.group(2) + "(" + ", ".join("{%d}" % i for i in range(len(kinds))) + ")", kinds))
    return decls


def enum_typed(tier):
    """every declared built-in / prelude function and method, called with arguments of the declared coarse kind: one
    position at a time ranges over every pool value of that kind (including containers whose elements have different
    types), the others hold a plain representative"""
    calls = []
    for tmpl, kinds in read_typed_decls():
        rep = [KIND_POOL[k][min(1, len(KIND_POOL[k]) - 1)] for k in kinds]
        if not kinds:
            calls.append(tmpl)
            continue
        for i, k in enumerate(kinds):
            for v in KIND_POOL[k]:
                args = list(rep)
                args[i] = v
                calls.append(tmpl.format(*args))
    seen, out = set(), []
    for c in calls:
        if c not in seen:
            seen.add(c)
            out.append(c)
    yield from batches(out)


def enum_operators(tier):
    calls = []
    vals = SMALL_POOL + ["(-9223372036854775807 - 1)", "0.0", "False", '"b"', "64"]
    for op in A.ALL_OPS:
        for a, b in itertools.product(vals, repeat=2):
            c = f"({a}) {op} ({b})"
            if tier == "thorough" or keep(c, 12):
                calls.append(c)
    yield from batches(calls)
    # += / -= on every pool value
    upd = []
    for a, b in itertools.product(vals, repeat=2):
        for op in ("+=", "-="):
            upd.append((a, op, b))
    b = []
    for a, op, bb in upd:
        if tier == "thorough" or keep(a + op + bb, 3):
            b.append(f"{{ let upd_v = {a}\n upd_v {op} {bb}\n upd_v }}" if False else f"fun() {{ let upd_v = {a}\n upd_v {op} {bb}\n upd_v }}()")
    yield from batches(b)


DEEP = [
    ("list", "let d = []\nlet i = 0\nwhile i < {n} {{ i += 1 d = [d] }}"),
    ("some", "let d = None\nlet i = 0\nwhile i < {n} {{ i += 1 d = Some(d) }}"),
    ("tuple", "let d = ()\nlet i = 0\nwhile i < {n} {{ i += 1 d = (d,) }}"),
]
DEEP_USES = [("print", "println(string_repr(d).len().as_float().floor().as_float().floor().as_float().floor().as_float().floor() == 0)"),
             ("repr-len", "println(string_repr(string_repr(d).len()))"), ("compare", "println(string_repr(d == d))"),
             ("drop", "d = 0\nprintln(\"dropped\")")]


def enum_deep(tier):
    ns = [10, 2000, 20000] if tier == "quick" else [10, 1000, 5000, 20000, 50000]
    for (kind, build), (use, code), n in itertools.product(DEEP, DEEP_USES[1:], ns):
        if tier == "quick" and n > 2000 and not (kind == "list" and use == "drop"):
            continue   # building a value that deep takes ~1 min (quadratic): quick keeps one such program
        yield {"kind": kind, "use": use, "n": n, "src": build.format(n=n) + "\n" + code + "\n"}


def check_deep(case, ctx) -> Res:
    path = ctx.scratch.file(case["src"])
    r = run_garden(["run", path], cwd=ctx.scratch.root, timeout=120)
    cls = (f"deep:{case['kind']}", f"use:{case['use']}", f"n:{case['n']}")
    if r.timed_out:
        return Res(ok=True, inconclusive=True, detail=f"deep value {case['kind']} n={case['n']} {case['use']}: timeout")
    if r.crashed:
        sig = r.crash_sig()
        if sig == "stack-overflow":
            sig = f"stack-overflow: {case['use']} of a value nested >= 1000 deep" if case["n"] >= 1000 else "stack-overflow on a shallow value"
        return fail(sig, f"value ({case['kind']}) nested {case['n']} deep, then {case['use']}: {r.crash_sig()}\n{r.err[-300:]}",
                    classes=cls)
    return Res(ok=True, nontrivial=case["n"] >= 1000, classes=cls)


def show(case):
    if "calls" in case:
        return case["calls"][:6]
    return f"{case['kind']} nested {case['n']} deep, then {case['use']}"


SUBS = [
    Sub("functions", check_calls, enum=enum_functions, show=show),
    Sub("methods", check_calls, enum=enum_methods, show=show),
    Sub("typed-calls", check_calls, enum=enum_typed, show=show),
    Sub("operators", check_calls, enum=enum_operators, show=show),
    Sub("deep-values", check_deep, enum=enum_deep, show=show),
]
