"""C04 — integer and float operators follow the documented arithmetic."""
from __future__ import annotations

import math
import re
import struct

from ..core import Res, Sub, fail
from ..evalbatch import eval_cases, expr_case
from ..model import arith as A

PROPERTY_ID = "C04"
LEVEL = "exploration"
EXHAUSTIVE = True
RULE = ("Exhaustive: all ordered pairs of a 20-value i64 boundary set x 12 integer operators plus `+=`/`-=`, and all "
        "ordered pairs of a 14-value finite f64 boundary set x 4 float operators; random: i64 pairs from mixed "
        "distributions (uniform 64-bit, near powers of two, small) and finite f64 pairs from random bit patterns. "
        "Each pair is evaluated by `garden run` and compared with an independent arithmetic model (wrap for + - *, "
        "truncation for /, Euclidean %, exact-or-exception **, exceptions for by-zero / unrepresentable). "
        "Non-trivial = an operand outside {0,1,2,3} in magnitude class 'boundary' (|x| >= 2^31 or negative) or an exact "
        "result outside i64 / a by-zero case; distinct = distinct operand pair.")
ASSUMPTIONS = ["the model in gv/model/arith.py is written from the property text and website/operator:*.md",
               "float results are compared numerically after parsing the printed text (Rust prints the shortest "
               "round-trip form); non-finite model results are outside the property's domain and not asserted"]
MANIFEST = dict(
    category="exploration",
    technique="model-based property testing: exhaustive boundary grid + random pairs against a reference arithmetic",
    text="Every pair of the boundary sets is enumerated (exhaustive sub-space) and ~20k (quick) random pairs are "
         "sampled; each operator result printed by the real CLI must equal the reference model's, and each error must "
         "be a Garden exception of the right kind, never a crash.",
    note="Trusted: the Python reference arithmetic (60 lines) and the CLI's printing of Int/Bool/Float.",
    ref="DESIGN.md section 3, C04",
)

B_INT = [A.MIN, A.MIN + 1, -(2 ** 32), -(2 ** 31) - 1, -3, -2, -1, 0, 1, 2, 3, 62, 63, 64, 2 ** 31, 2 ** 32,
         3037000500, 2 ** 62, A.MAX - 1, A.MAX]
B_FLOAT = [0.0, 1.0, -1.0, 0.5, 3.5, -2.25, 0.1, 1e-5, 5e-324, 2.2250738585072014e-308, 1e308, -1e308, 1e15 + 0.5,
           123456789.125]


def check_int_pair(case, ctx) -> Res:
    a, b = case["a"], case["b"]
    la, lb = A.int_lit(a), A.int_lit(b)
    snippets, expect = [], []
    for op in A.INT_OPS:
        snippets.append(expr_case(f"{la} {op} {lb}"))
        try:
            expect.append(("ok", A.show(A.int_op(op, a, b))))
        except A.GardenError as e:
            expect.append(("err", e.kind))
    for upd, op in (("+=", "+"), ("-=", "-")):
        snippets.append(f"let v_{len(snippets)} = {la}\nv_{len(snippets)} {upd} {lb}\nprintln(string_repr(v_{len(snippets)}))")
        expect.append(("ok", A.show(A.int_op(op, a, b))))
    names = A.INT_OPS + ["+=", "-="]
    outs = eval_cases(ctx, snippets)
    nontrivial = False
    for name, sn, (ekind, eval_), o in zip(names, snippets, expect, outs):
        if o is None:
            return Res(ok=True, inconclusive=True, detail=f"no outcome for {sn}")
        if o.kind == "timeout":
            return Res(ok=True, inconclusive=True, detail=f"timeout on {sn}")
        if o.kind == "crash":
            return fail(o.msg, f"`{sn}` crashed the interpreter: {o.msg}\n{o.stderr[-500:]}")
        if o.kind == "parse_error":
            return fail(f"{name}: literal does not parse", f"`{sn}`: {o.msg}")
        if ekind == "ok":
            if o.kind != "ok" or o.out.strip() != eval_:
                got = o.out.strip() if o.kind == "ok" else f"error: {o.msg}"
                return fail(f"int {name}: wrong result", f"`{sn}` gave {got}, reference says {eval_}")
        else:
            nontrivial = True
            if o.kind != "err" or not re.search(A.ERR_PATTERNS[eval_], o.msg):
                got = o.out.strip() if o.kind == "ok" else f"error: {o.msg}"
                return fail(f"int {name}: expected exception {eval_}",
                            f"`{sn}` gave {got}, reference says exception ({eval_})")
    if any(abs(x) >= 2 ** 31 or x < 0 for x in (a, b)):
        nontrivial = True
    if not (A.MIN <= a + b <= A.MAX and A.MIN <= a - b <= A.MAX and A.MIN <= a * b <= A.MAX):
        nontrivial = True
    cls = ["int-pair"]
    if not (A.MIN <= a * b <= A.MAX):
        cls.append("mul-overflows")
    if not (A.MIN <= a + b <= A.MAX):
        cls.append("add-overflows")
    if b == 0:
        cls.append("by-zero")
    return Res(ok=True, nontrivial=nontrivial, classes=tuple(cls), extra=len(snippets))


def parse_float_text(s: str):
    s = s.strip().replace("_", "")
    try:
        return float(s)
    except ValueError:
        return None


def check_float_pair(case, ctx) -> Res:
    x, y = case["x"], case["y"]
    lx, ly = A.float_lit(x), A.float_lit(y)
    snippets, expect = [], []
    for op in A.FLOAT_OPS:
        snippets.append(expr_case(f"{lx} {op} {ly}"))
        try:
            expect.append(("ok", A.float_op(op, x, y)[1]))
        except A.GardenError as e:
            expect.append(("err", e.kind))
    outs = eval_cases(ctx, snippets)
    cls = ["float-pair"]
    for op, sn, (ekind, ev), o in zip(A.FLOAT_OPS, snippets, expect, outs):
        if o is None or o.kind == "timeout":
            return Res(ok=True, inconclusive=True, detail=f"no outcome for {sn}")
        if o.kind == "crash":
            return fail(o.msg, f"`{sn}` crashed the interpreter: {o.msg}\n{o.stderr[-500:]}")
        if o.kind == "parse_error":
            return fail(f"{op}: literal does not parse", f"`{sn}`: {o.msg}")
        if ekind == "ok":
            if not math.isfinite(ev):
                cls.append("nonfinite-result-unasserted")
                continue
            got = parse_float_text(o.out) if o.kind == "ok" else None
            if got is None or struct.pack("<d", got) != struct.pack("<d", ev):
                # -0.0 vs 0.0 print differently but are equal numbers; compare numerically as the property says
                if got is not None and got == ev:
                    continue
                shown = o.out.strip() if o.kind == "ok" else f"error: {o.msg}"
                return fail(f"float {op}: wrong result", f"`{sn}` gave {shown}, reference says {ev!r}")
        else:
            if o.kind != "err" or not re.search(A.ERR_PATTERNS[ev], o.msg):
                shown = o.out.strip() if o.kind == "ok" else f"error: {o.msg}"
                return fail(f"float {op}: expected exception {ev}", f"`{sn}` gave {shown}, reference says exception")
    nt = any(v not in (0.0, 1.0) for v in (x, y))
    return Res(ok=True, nontrivial=nt, classes=tuple(cls), extra=len(snippets))


def enum_int(tier):
    for a in B_INT:
        for b in B_INT:
            yield {"a": a, "b": b}


def enum_float(tier):
    for x in B_FLOAT:
        for y in B_FLOAT:
            yield {"x": x, "y": y}


def gen_i64(r) -> int:
    k = r.int(0, 5)
    if k == 0:
        return r.int(-20, 20)
    if k == 1:
        return r.int(A.MIN, A.MAX)
    if k == 2:
        e = r.int(0, 63)
        v = (1 << e) + r.int(-3, 3)
        v = min(v, A.MAX)
        return -v if r.bool(0.4) else v
    if k == 3:
        return r.choice(B_INT)
    if k == 4:
        return r.int(-(2 ** 33), 2 ** 33)
    return r.choice([A.MAX, A.MIN]) + r.int(0, 1000) * (1 if r.bool() else 0) * (-1 if r.bool() else 1) \
        if False else r.int(A.MAX - 1000, A.MAX) * (1 if r.bool(0.5) else -1)


def gen_int_pair(r):
    return {"a": gen_i64(r), "b": gen_i64(r)}


def gen_f64(r) -> float:
    k = r.int(0, 3)
    if k == 0:
        return r.choice(B_FLOAT)
    if k == 1:
        return r.int(-1000, 1000) / r.choice([1, 2, 4, 8, 10, 3])
    bits = r.int(0, (1 << 64) - 1)
    v = struct.unpack("<d", struct.pack("<Q", bits))[0]
    if not math.isfinite(v):
        return 1.5
    if v == 0.0:
        return 0.0
    return v


def gen_float_pair(r):
    return {"x": gen_f64(r), "y": gen_f64(r)}


SUBS = [
    Sub("int-grid", check_int_pair, enum=enum_int),
    Sub("float-grid", check_float_pair, enum=enum_float),
    Sub("int-random", check_int_pair, gen=gen_int_pair, cases={"quick": 1200, "thorough": 40000}),
    Sub("float-random", check_float_pair, gen=gen_float_pair, cases={"quick": 600, "thorough": 20000}),
]
