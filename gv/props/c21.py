"""C21 — wrap-in-dbg and add-type-annotation preserve behaviour."""
from __future__ import annotations

import json
import re

from ..core import Res, Sub, fail, run_garden
from ..gen import core as G

PROPERTY_ID = "C21"
LEVEL = "exploration"
RULE = ("Programs: G-core generated programs (let hints none / partial; failing operations allowed), the same with "
        "function signatures stripped of their hints, and 14 hand-written templates whose inferred types stress the "
        "hint printer (closures and named functions as values, generic functions, tuples incl. 1-tuples, nested "
        "lists, empty list / None / Dict[] (NoValue arguments), Option / Result, enums, structs, generic structs, "
        "destructuring, loop variables, pattern variables, type parameters), and generated function-value programs "
        "(lambdas / named functions used as values / functions returned from functions, each parameter and the "
        "return type hinted or not; lets inside closures of generic functions; generic functions as values). "
        "wrap-in-dbg: every expression node of "
        "the program (positions from the real parser via the hook; 3..5 random ones per program, statements "
        "included) is wrapped by the real `reftest-wrap-in-dbg`; the result must parse, print the same stdout and end "
        "the same way (same exit status and same error message, or none); stderr may only gain lines. "
        "add-type-annotation: every symbol, function-signature and closure-header position (3..5 per program) is given to the real "
        "`reftest-add-type-annotation`; where it inserts an annotation the result must parse, `garden check` must "
        "report no error message that the original did not have, and the run must print and end the same. "
        "Non-trivial = the tool changed the source (and, for annotations, inserted a non-primitive type); distinct = "
        "distinct (program, position).")
ASSUMPTIONS = ["'ends the same' compares the first `Exception:` / `Error:` line without its position (positions move "
               "when text is inserted)",
               "check errors are compared as multisets of message texts with positions removed"]
MANIFEST = dict(
    category="exploration",
    technique="metamorphic / differential testing of the real refactoring commands over generated programs and every "
              "node position: original vs refactored program (parse, check, run)",
    text="~800 (quick) / 50 000 (thorough) refactorings of generated programs executed before and after; any parse "
         "error, new check error or behaviour difference is a violation.",
    note="Trusted: the comparison of outcomes (stdout, first error line); positions come from the real parser.",
    ref="DESIGN.md section 3, C21",
)

TEMPLATES = [
    # closures and functions as values
    """fun twice(f: Fun<(Int), Int>, x: Int): Int { f(f(x)) }
fun inc(x: Int): Int { x + 1 }
let g = inc
let h = fun(q: Int): Int { q * 2 }
let k = fun(a, b) { a }
let r = twice(g, 1) + twice(h, 2)
println(string_repr(r))
println(string_repr(k(1, "s")))
""",
    # tuples, destructuring
    """fun pair(x) { (x, "s") }
fun one(x) { (x,) }
let p = pair(1)
let (a, b) = p
let o = one(True)
let u = ()
println(string_repr((a, b, o, u)))
""",
    # empty collections and NoValue arguments
    """fun empties() {
  let xs = []
  let n = None
  let d = Dict[]
  let ys = [[]]
  let e = Err("bad")
  (xs, n, d, ys, e)
}
println(string_repr(empties()))
""",
    # option / result / match pattern variables
    """fun first_or(xs, default) {
  match xs.first() {
    Some(v) => v
    None => default
  }
}
fun safe_div(a, b) {
  if b == 0 { Err("div by zero") } else { Ok(a / b) }
}
let q = safe_div(10, 2)
let z = match q { Ok(v) => v, Err(msg) => msg.len() }
println(string_repr((first_or([1, 2], 0), z)))
""",
    # generics
    """fun id<T>(x: T) { x }
fun wrap<T>(x: T) { [x] }
fun swap<A, B>(p: (A, B)) { let (a, b) = p
  (b, a) }
let i = id(5)
let w = wrap("s")
let s = swap((1, "one"))
println(string_repr((i, w, s)))
""",
    # enums and structs
    """enum Shape { Dot, Circle(Int), Named(String) }
struct Pt { x: Int, label: String }
struct Box<T> { v: T }
fun area(s) {
  match s { Dot => 0, Circle(r) => r * r * 3, Named(n) => n.len() }
}
fun mk(x) { Pt{ x: x, label: "p" } }
let c = Circle(2)
let p = mk(3)
let b = Box{ v: [1] }
let bv = b.v
println(string_repr((area(c), p.x, p.label, bv)))
""",
    # loops, loop variables, accumulators
    """fun total(xs) {
  let acc = 0
  for x in xs { acc += x }
  acc
}
fun pairs(xs) {
  let out = []
  for (i, s) in xs { out = out.append(s ^ string_repr(i)) }
  out
}
let i = 0
while i < 2 { i += 1 }
println(string_repr((total([1, 2, 3]), pairs([(1, "a"), (2, "b")]), i)))
""",
    # methods and strings
    """method shout(this: String) { this ^ "!" }
method double(this: Int) { this * 2 }
fun use(s, n) { (s.shout(), n.double(), s.len(), "a,b".split(","), s.chars()) }
println(string_repr(use("hi", 4)))
""",
    # dicts and nested containers
    """fun build() {
  let d = Dict["a" => [1, 2], "b" => []]
  let e = d.set("c", [3])
  let ks = e.keys()
  let got = e.get("a")
  (ks.len(), got)
}
println(string_repr(build()))
""",
    # higher-order list functions
    """fun squares(xs) { xs.map(fun(x) { x * x }) }
fun evens(xs) { xs.filter(fun(x) { (x % 2) == 0 }) }
let s = squares([1, 2, 3])
let e = evens(s)
let f = fun(x) { [x] }
println(string_repr((s, e, f(1))))
""",
    # failing program: the error must stay the same
    """fun risky(x) {
  let y = x - 1
  10 / y
}
println(string_repr(risky(3)))
println(string_repr(risky(1)))
""",
    # unit, early return, nested functions values
    """fun log(msg) { println(msg) }
fun find(xs, want) {
  for x in xs { if x == want { return Some(x) } }
  None
}
let u = log("start")
let r = find([1, 2], 2)
let m = find(["a"], "b")
println(string_repr((u, r, m)))
""",
    # float and bool
    """fun avg(a, b) { (a +. b) /. 2.0 }
fun both(p, q) { p && q }
let v = avg(1.0, 2.0)
let t = both(True, 1 < 2)
println(string_repr((v, t, 3.as_float())))
""",
    # shadowing and blocks
    """fun shadow(x) {
  let x = x + 1
  if x > 1 {
    let x = "inner"
    println(x)
  }
  x
}
println(string_repr(shadow(1)))
""",
]


def gen_fun_value_template(r):
    """function values whose parameter / return types are hinted or not, reached as a lambda, a named function
    used as a value, or a function returned from a function; inside plain and generic functions"""
    n = r.int(1, 2)
    hinted = [r.bool() for _ in range(n)]
    params = ", ".join(f"p{i}: Int" if h else f"p{i}" for i, h in enumerate(hinted))
    body, ret = r.choice([("string_repr(p0)", "String"), ("p0", None), ("[p0]", None), ("1", "Int"),
                          ("println(string_repr(p0))", "Unit")])
    ret_hint = f": {ret}" if ret and r.bool() else ""
    args = ", ".join(str(i + 1) for i in range(n))
    form = r.int(0, 4)
    if form == 0:
        return f"let fv = fun({params}){ret_hint} {{ {body} }}\nlet res = fv({args})\nprintln(string_repr(res))\n"
    if form == 1:
        return (f"fun named({params}){ret_hint} {{ {body} }}\nlet fv = named\nlet res = fv({args})\n"
                f"println(string_repr(res))\n")
    if form == 2:
        return (f"fun make() {{\n  fun({params}){ret_hint} {{ {body} }}\n}}\nlet fv = make()\nlet res = fv({args})\n"
                f"println(string_repr(res))\n")
    if form == 3 and r.bool():
        return ("fun both<T>(x: T): List<T> {\n  let get = fun() { x }\n  [get(), get()]\n}\n"
                "fun pairs<T>(x: T): List<(T, T)> {\n  [x].map(fun(v) { (v, v) })\n}\n"
                "println(string_repr(both(1)))\nprintln(string_repr(both(\"a\")))\nprintln(string_repr(pairs(2)))\n")
    if form == 3:
        return (f"fun wrap<T>(x: T): List<T> {{\n  let f = fun() {{\n    let v = x\n    [v]\n  }}\n  f()\n}}\n"
                f"fun helper<T>(y: T): T {{ y }}\nfun go() {{\n  let hv = helper\n  println(string_repr(hv(1)))\n}}\n"
                f"println(string_repr(wrap(1)))\ngo()\n")
    return (f"fun apply(f, x) {{ f(x) }}\nfun named({params}){ret_hint} {{ {body} }}\n"
            f"let res = apply(fun(q) {{ q }}, 1)\nlet fv = named\nprintln(string_repr((res, fv({args}))))\n")


STRIP_RE = re.compile(r"^(fun \w+)\(([^)]*)\)(: [^{]+)? \{", re.M)


def strip_signatures(src: str) -> str:
    """remove parameter and return hints from top-level function signatures (closures keep theirs)"""
    def repl(m):
        params = ", ".join(p.split(":")[0].strip() for p in m.group(2).split(",") if p.strip()) \
            if "<" not in m.group(2) and "(" not in m.group(2) else m.group(2)
        return f"{m.group(1)}({params}) {{"
    return STRIP_RE.sub(repl, src)


def gen_program(r):
    k = r.int(0, 11)
    if k >= 10:
        return "fun-value", gen_fun_value_template(r)
    if k <= 3:
        return "template", r.choice(TEMPLATES)
    knobs = G.Knobs(shadowing=True, annotations=r.choice(["none", "partial"]), errors=r.bool(),
                    max_stmts=r.choice([3, 6]), max_funs=r.choice([1, 2]), max_depth=r.choice([2, 3]))
    _, src = G.generate(r, knobs)
    if k <= 6:
        return "core-stripped", strip_signatures(src)
    return "core", src


def gen(r):
    kind, src = gen_program(r)
    return {"kind": kind, "src": src, "picks": [r.int(0, (1 << 16) - 1) for _ in range(r.choice([3, 4, 5]))]}


def outcome(run):
    m = re.search(r"^(Exception|Error): (.*)$", run.err, re.M)
    return (run.rc, m.group(2) if m else None)


def positions(ctx, src, kinds):
    a = ctx.hook_call({"op": "ast", "src": src, "positions": True}, timeout=20)
    if "died" in a or "panic" in a or a.get("errors"):
        return None
    seen, out = set(), []
    for p in a["positions"]:
        if any(p["k"].startswith(k) for k in kinds) and (p["s"], p["e"]) not in seen and p["e"] > p["s"]:
            seen.add((p["s"], p["e"]))
            out.append((p["s"], p["e"], p["k"]))
    return out


def run_tool(ctx, tool, path, s, e):
    return run_garden([tool, path, str(s), str(e)], cwd=ctx.scratch.root, timeout=30)


def check_messages(ctx, path):
    r = run_garden(["check", "--json", path], cwd=ctx.scratch.root, timeout=30)
    msgs = []
    for line in r.out.splitlines():
        if line.startswith("{"):
            try:
                d = json.loads(line)
            except json.JSONDecodeError:
                continue
            if d.get("severity") == "error":
                msgs.append(d.get("message", ""))
    return r, sorted(msgs)


def base_run(ctx, src):
    path = ctx.scratch.file(src)
    r = run_garden(["run", path], cwd=ctx.scratch.root, timeout=30)
    return path, r


def check_dbg(case, ctx) -> Res:
    src = case["src"]
    cls = ["src:" + case["kind"]]
    pos = positions(ctx, src, ("expr",))
    if not pos:
        return Res(ok=True, classes=tuple(cls + ["unparseable-or-empty"]))
    path, base = base_run(ctx, src)
    if base.timed_out or base.crashed:
        return Res(ok=True, inconclusive=True, detail="original does not run cleanly: " + base.crash_sig())
    n_changed = 0
    for pick in case["picks"]:
        s, e, k = pos[pick * len(pos) >> 16]
        text = src.encode("utf-8")[s:e].decode("utf-8", "replace")
        t = run_tool(ctx, "reftest-wrap-in-dbg", path, s, e)
        what = f"wrap-in-dbg of `{text[:60]}` at bytes {s}..{e}"
        if t.crashed:
            return fail("wrap-in-dbg crashed: " + t.crash_sig(), f"{what}\n{t.err[-300:]}\n--- program\n{src}", classes=cls)
        if t.rc != 0:
            continue
        new = t.out
        if new == src:
            continue
        n_changed += 1
        a = ctx.hook_call({"op": "ast", "src": new}, timeout=20)
        if "died" in a or "panic" in a or a.get("errors"):
            return fail("wrap-in-dbg result does not parse", f"{what}\n{a.get('errors')}\n--- result\n{new}", classes=cls)
        p2 = ctx.scratch.file(new)
        r2 = run_garden(["run", p2], cwd=ctx.scratch.root, timeout=30)
        if r2.timed_out:
            return Res(ok=True, inconclusive=True, detail="wrapped program timed out")
        if r2.crashed:
            return fail("wrapped program crashes the interpreter: " + r2.crash_sig(), f"{what}\n--- result\n{new}", classes=cls)
        kind = first_word(text)
        if r2.out != base.out:
            return fail(f"wrap-in-dbg changes standard output [{kind}]",
                        f"{what}\n--- original stdout\n{base.out[:400]}\n--- wrapped stdout\n{r2.out[:400]}\n--- wrapped stderr\n{r2.err[:400]}\n--- result\n{new}",
                        classes=cls)
        if outcome(r2) != outcome(base):
            return fail(f"wrap-in-dbg changes how the program ends [{kind}]",
                        f"{what}\noriginal {outcome(base)} wrapped {outcome(r2)}\n--- wrapped stderr\n{r2.err[:500]}\n--- result\n{new}",
                        classes=cls)
    return Res(ok=True, nontrivial=n_changed > 0, classes=tuple(cls), extra=max(1, n_changed))


def first_word(text):
    m = re.match(r"\s*([A-Za-z_]+|\S)", text)
    w = m.group(1) if m else "?"
    return w if w in ("let", "return", "break", "continue", "while", "for", "if", "match", "assert", "fun") else "expression"


PRIMITIVE = {"Int", "String", "Bool", "Unit", "Float"}


def check_annot(case, ctx) -> Res:
    src = case["src"]
    cls = ["src:" + case["kind"]]
    pos = positions(ctx, src, ("symbol",))
    if pos is not None:
        # a function literal has no name symbol: its return-type annotation is offered when the cursor is in its
        # parameter list, so the opening parenthesis of every `fun(` is a position too (listed twice: they are few)
        sb = src.encode("utf-8")
        for m in re.finditer(rb"\bfun\s*\(", sb):
            o = m.end() - 1
            pos += [(o, o + 1, "closure-header"), (o, o + 1, "closure-header")]
    if not pos:
        return Res(ok=True, classes=tuple(cls + ["unparseable-or-empty"]))
    path, base = base_run(ctx, src)
    if base.timed_out or base.crashed:
        return Res(ok=True, inconclusive=True, detail="original does not run cleanly: " + base.crash_sig())
    _, base_msgs = check_messages(ctx, path)
    n_changed, rich = 0, False
    for pick in case["picks"]:
        s, e, k = pos[pick * len(pos) >> 16]
        text = src.encode("utf-8")[s:e].decode("utf-8", "replace")
        t = run_tool(ctx, "reftest-add-type-annotation", path, s, e)
        what = f"add-type-annotation at `{text[:40]}` (bytes {s}..{e})"
        if t.crashed:
            return fail("add-type-annotation crashed: " + t.crash_sig(), f"{what}\n{t.err[-300:]}\n--- program\n{src}", classes=cls)
        if t.rc != 0:
            continue
        new = t.out
        if new == src:
            continue
        n_changed += 1
        inserted = inserted_text(src, new)
        if not (set(re.findall(r"[A-Za-z]+", inserted)) <= PRIMITIVE):
            rich = True
        shape = re.sub(r"__ERROR\([^)]*\)", "__ERROR", inserted)
        shape = re.sub(r"\b(Int|String|Bool|Float|Unit)\b", "P", shape)
        a = ctx.hook_call({"op": "ast", "src": new}, timeout=20)
        if "died" in a or "panic" in a or a.get("errors"):
            return fail(f"annotated program does not parse [inserted shape `{shape}`]",
                        f"{what}: inserted `{inserted}`\n{a.get('errors')}\n--- result\n{new}", classes=cls)
        p2 = ctx.scratch.file(new)
        cr, msgs = check_messages(ctx, p2)
        if cr.crashed:
            return fail("check crashes on the annotated program: " + cr.crash_sig(), f"{what}\n--- result\n{new}", classes=cls)
        extra = list(msgs)
        for m in base_msgs:
            if m in extra:
                extra.remove(m)
        if extra:
            if re.search(r"but got an? `Any`", extra[0]):
                why = "an untyped (Any) value now meets the inserted hint"
            else:
                why = re.sub(r"`[^`]*`", "`..`", extra[0])[:60]
            return fail(f"annotation introduces a check error: {why}",
                        f"{what}: inserted `{inserted}`\nnew check errors: {extra[:3]}\n--- result\n{new}", classes=cls)
        r2 = run_garden(["run", p2], cwd=ctx.scratch.root, timeout=30)
        if r2.timed_out:
            return Res(ok=True, inconclusive=True, detail="annotated program timed out")
        if r2.crashed:
            return fail("annotated program crashes the interpreter: " + r2.crash_sig(), f"{what}\n--- result\n{new}", classes=cls)
        if r2.out != base.out or outcome(r2) != outcome(base):
            return fail(f"annotation changes behaviour [inserted shape `{shape}`]",
                        f"{what}: inserted `{inserted}`\noriginal {outcome(base)} annotated {outcome(r2)}\n--- original stdout\n{base.out[:300]}\n"
                        f"--- annotated stdout\n{r2.out[:300]}\n--- annotated stderr\n{r2.err[:400]}\n--- result\n{new}", classes=cls)
    if rich:
        cls.append("inserted:non-primitive")
    return Res(ok=True, nontrivial=n_changed > 0 and rich, classes=tuple(cls), extra=max(1, n_changed))


def inserted_text(old: str, new: str) -> str:
    i = 0
    while i < len(old) and i < len(new) and old[i] == new[i]:
        i += 1
    j = 0
    while j < len(old) - i and j < len(new) - i and old[len(old) - 1 - j] == new[len(new) - 1 - j]:
        j += 1
    return new[i:len(new) - j]


def show(case):
    return {"kind": case["kind"], "src": case["src"][:500]}


SUBS = [
    Sub("wrap-in-dbg", check_dbg, gen=gen, cases={"quick": 120, "thorough": 8000}, show=show),
    Sub("add-type-annotation", check_annot, gen=gen, cases={"quick": 120, "thorough": 8000}, show=show),
]
