"""C25 — sandboxed runs always finish within their step budget (and never crash)."""
from __future__ import annotations

import os

from ..core import Res, Sub, fail
from ..gen import core as G
from .. import sandbox as SB

PROPERTY_ID = "C25"
LEVEL = "exploration"
RULE = ("Generated non-terminating and resource-hungry programs run under `playground-run` and `sandboxed-test`: "
        "`while True` with assorted bodies (empty, printing, allocating, calling), direct / mutual / closure / method "
        "recursion without a base case, loops that nest a value as deep as the tick budget allows (x = [x], Some(x), "
        "(x,)) and then print / compare / drop it or simply end, read_line with standard input held open, "
        "sequences of 2..4 tests (most of them non-terminating) optionally followed by non-terminating top-level code in "
        "one run (under playground-run, and under sandboxed-test with an offset outside every test, at the end, in a "
        "called function or in one test), so that the budget has to stop the run more than once, and "
        "ordinary G-core programs. Oracle: the process exits by itself within 20 s (re-run once at 200 s before a "
        "time-out is called a violation) with status 0 and well-formed JSON lines, never by signal or exit 101. "
        "Exponential memory growth (s = s ^ s) is outside the property's wording and is not generated. "
        "Non-trivial = the program would not terminate, or would exceed the limits, without the sandbox; distinct = "
        "distinct program.")
ASSUMPTIONS = ["a watchdog expiry is re-run with a 10x budget; only a second expiry is reported (as non-termination)"]
MANIFEST = dict(
    category="exploration",
    technique="generated non-terminating / deeply recursive / value-nesting programs under the real sandbox commands "
              "with a watchdog oracle",
    text="~250 (quick) / 5 000 (thorough) sandboxed runs; each must end by itself with a result, an error or a "
         "resource-limit error, never hang or crash.",
    note="Trusted: the watchdog and crash detection in gv/sandbox.py.",
    ref="DESIGN.md section 3, C25",
)

BODIES = ["", "1", 'println("x")', "let v = [1, 2, 3]", "helper(1)", "acc = acc + 1", 'acc = acc + 1 println(string_repr(acc))']
NONTERM = [
    ("while-true", "let acc = 0\nfun helper(x: Int): Int {{ x + 1 }}\nwhile True {{ {body} }}\n"),
    ("direct-recursion", "fun rec(n: Int): Int {{ {body}\n rec(n + 1) }}\nfun helper(x: Int): Int {{ x }}\nlet acc = 0\nrec(0)\n"),
    ("mutual-recursion", "fun ping(n: Int): Int { pong(n + 1) }\nfun pong(n: Int): Int { ping(n + 1) }\nping(0)\n"),
    ("method-recursion", "method forever(this: Int): Int { (this + 1).forever() }\n1.forever()\n"),
    ("closure-in-loop", "let f = fun(n: Int): Int { n + 1 }\nlet i = 0\nwhile True { i = f(i) }\n"),
    ("nested-loops", "while True { for x in [1, 2, 3] { while True { 1 } } }\n"),
    ("growing-list", "let xs = []\nwhile True { xs = xs.append(1) }\n"),
    ("growing-string", 'let s = ""\nwhile True { s = s ^ "ab" }\n'),
    ("recursion-in-test", None),
]
NEST = [("list", "[x]"), ("some", "Some(x)"), ("tuple", "(x,)")]
NEST_END = [("then-limit", ""), ("print", "println(string_repr(x))"), ("repr-len", "println(string_repr(string_repr(x).len()))"),
            ("compare", "println(string_repr(x == x))"), ("drop", "x = 0\nprintln(\"dropped\")")]


def enum_cases(tier):
    for name, tpl in NONTERM:
        if tpl is None:
            src = "fun target(n: Int): Int { target(n + 1) }\ntest loops { target(0) }\ntest spins { while True { 1 } }\n"
            yield {"name": name, "src": src, "cmd": "sandboxed-test", "offset": src.index("target(n + 1)"), "stdin": "token"}
            continue
        if "{body}" in tpl:
            for b in BODIES:
                yield {"name": f"{name} body `{b}`", "src": tpl.format(body=b), "cmd": "playground-run", "stdin": "token"}
        else:
            yield {"name": name, "src": tpl, "cmd": "playground-run", "stdin": "token"}
    # nest a value for n steps (n below / at / beyond what the tick budget allows), then use it
    for (kind, ctor), (end, code) in [(a, b) for a in NEST for b in NEST_END]:
        if tier == "quick":
            # building a value that deep is quadratic (~40 s): quick keeps the deep cases for lists only
            ns = [300, 3000] + ([16000] if kind == "list" and end != "then-limit" else []) + \
                 ([10 ** 9] if kind == "list" and end in ("then-limit", "print") else [])
        else:
            ns = [300, 3000, 8000, 16000, 10 ** 9]
        for n in ns:
            src = f"let x = {ctor.replace('x', '0') if kind != 'list' else '[]'}\nlet i = 0\nwhile i < {n} {{ i += 1 x = {ctor} }}\n{code}\n"
            yield {"name": f"nest {kind} x{n} {end}", "src": src, "cmd": "playground-run", "stdin": "token"}
    # several levels per iteration: the tick budget then allows > 20 000 levels (one level per iteration stops
    # at ~11 000, below the depth at which recursive traversal exhausts the stack)
    for end, code in NEST_END:
        if tier == "quick" and end not in ("print", "drop", "then-limit"):
            continue
        src = f"let x = []\nlet i = 0\nwhile i < 2500 {{ i += 1 x = [[[[[[[[x]]]]]]]] }}\n{code}\n"
        yield {"name": f"nest list x2500 (8 levels per step) {end}", "src": src, "cmd": "playground-run", "stdin": "token"}
    # blocking built-in: stdin is a pipe that is never written nor closed
    for src in ["let r = read_line()\nprintln(string_repr(r))\n", "fun ask(): String { string_repr(read_line()) }\nprintln(ask())\n"]:
        yield {"name": "read_line with stdin held open", "src": src, "cmd": "playground-run", "stdin": "open"}
    src = "fun target(): String { string_repr(read_line()) }\ntest asks { target() }\n"
    yield {"name": "read_line in a sandboxed test, stdin held open", "src": src, "cmd": "sandboxed-test",
           "offset": src.index("string_repr"), "stdin": "open"}


TEST_BODIES = ["while True { 1 }", "spin_rec(0)", "for x in [1, 2, 3] { while True { 1 } }",
               "let xs = []\n  while True { xs = xs.append(1) }", "assert(1 == 1)", "assert(1 / 0 == 1)", "println(\"in test\")",
               "let n = 0\n  while True { n += 1 }", "1.forever_m()"]


def gen_sequences(r):
    """several resource-hungry pieces in ONE sandboxed run: 2..4 tests (most of them non-terminating), optionally
    followed by non-terminating top-level code, so that the step / stack budget has to stop the run more than once"""
    n = r.int(2, 4)
    src = "fun spin_rec(n: Int): Int { spin_rec(n + 1) }\nmethod forever_m(this: Int): Int { (this + 1).forever_m() }\n"
    names = []
    for i in range(n):
        body = r.choice(TEST_BODIES[:4] + TEST_BODIES)
        names.append(f"seq_test_{i}")
        src += f"test seq_test_{i} {{\n  {body}\n}}\n"
    top = r.choice(["", "", "while True { 1 }\n", "spin_rec(0)\n", "println(\"top\")\n", "let t = 0\nwhile True { t += 1 }\n"])
    src += top
    cmd = r.choice(["playground-run", "sandboxed-test", "sandboxed-test"])
    case = {"name": f"sequence of {n} tests" + (" + top-level code" if top else ""), "src": src, "cmd": cmd, "stdin": "token"}
    if cmd == "sandboxed-test":
        k = r.int(0, 3)
        if k == 0:
            case["offset"] = 0                      # outside every test: all tests run
        elif k == 1:
            case["offset"] = len(src) - 1
        elif k == 2:
            case["offset"] = src.index("spin_rec(n + 1)")      # tests that call spin_rec
        else:
            case["offset"] = src.index(r.choice(names))
    return case


def gen_ordinary(r):
    knobs = G.Knobs(errors=r.bool(0.5), early_exit_bias=r.bool(0.3), max_stmts=r.choice([4, 8]), max_funs=r.choice([0, 1, 2]))
    _, src = G.generate(r, knobs)
    return {"name": "ordinary program", "src": src, "cmd": "playground-run", "stdin": "token"}


def run(ctx, case, timeout):
    d = SB.make_arena(ctx)
    with open(os.path.join(d, "prog.gdn"), "w") as f:
        f.write(case["src"])
    args = ["playground-run", "prog.gdn"] if case["cmd"] == "playground-run" else ["sandboxed-test", "prog.gdn", str(case["offset"])]
    return SB.run_sandboxed(args, d, stdin_mode=case["stdin"], timeout=timeout)


def check(case, ctx) -> Res:
    # values nested thousands of levels deep take tens of seconds to build (quadratic); give those cases the
    # larger budget at once instead of burning the small one first
    first = 150 if ("nest" in case["name"] and any(k in case["name"] for k in ("x16000", "x2500", "x1000000000", "x8000"))) else 20
    r = run(ctx, case, first)
    what = f"[{case['name']}] under {case['cmd']}"
    slow = False
    if r.timed_out:
        slow = True
        r = run(ctx, case, 10 * first)
        if r.timed_out:
            kind = "stdin held open" if case["stdin"] == "open" else case["name"].split(" body")[0].split(" x")[0]
            return fail(f"sandboxed run does not finish [{kind}]", f"{what}: still running after 10x the first budget\n--- program\n{case['src']}")
    if r.crashed:
        first = r.err.strip().split("\n")[0][:100] if r.err.strip() else f"rc {r.rc}"
        sig = "sandboxed run crashed: " + ("stack overflow" if "overflowed its stack" in r.err else first)
        if "overflowed its stack" in r.err and case["name"].startswith("nest"):
            sig = "sandboxed run crashed: stack overflow on a value nested as deep as the tick budget allows"
        return fail(sig, f"{what}: rc={r.rc}\n{r.err[-300:]}\n--- program\n{case['src']}")
    if r.rc != 0:
        return fail("sandboxed run exits with a non-zero status", f"{what}: rc={r.rc}\n{r.err[-300:]}\n--- program\n{case['src']}")
    vals, bad = r.json_lines()
    if bad or not vals:
        return fail("sandboxed run output is not well-formed JSON lines", f"{what}: {bad[:2]}\n--- program\n{case['src']}")
    cls = [f"cmd:{case['cmd']}"]
    last = vals[-1]
    limit = "limit" in str(last.get("error", "")) or "limit" in str(last)
    if limit:
        cls.append("ended-by-resource-limit")
    if slow:
        cls.append("needed-more-than-20s")
    nt = case["name"] != "ordinary program"
    return Res(ok=True, nontrivial=nt, classes=tuple(cls))


def show(case):
    return f"[{case['name']}]\n{case['src']}"


SUBS = [
    Sub("non-terminating", check, enum=enum_cases, show=show),
    Sub("sequences", check, gen=gen_sequences, cases={"quick": 60, "thorough": 2000}, show=show),
    Sub("ordinary", check, gen=gen_ordinary, cases={"quick": 150, "thorough": 4000}, show=show),
]
