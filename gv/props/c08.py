"""C08 — an evaluation interrupted anywhere resumes to the same outcome (fault enumeration)."""
from __future__ import annotations

from ..core import Res, Sub, fail
from ..gen import core as G
from ..session import run_session, summarize
from . import c05

PROPERTY_ID = "C08"
LEVEL = "fault_enumeration"
EXHAUSTIVE = True
RULE = ("Random G-core programs (definitions sent in a first request, the top-level statements in a second). Fault "
        "plan: EVERY evaluation step k = 1..T of the program as a single interrupt point (exhaustive per program; T is "
        "found by raising k until no interrupt fires), plus random multi-point plans (2..5 points incl. adjacent steps "
        "and points inside resumed runs) and structured plans whose last point is the final step of the already-resumed "
        "evaluation (step T + n after n earlier interrupts); the final top-level expression is a literal, a "
        "parenthesised expression, an operator or a call. Injection: the guarded hook stores `true` into the session's own "
        "`interrupted` flag when the global step counter reaches a listed value; the real check-and-restore code then "
        "runs unmodified. Second population: one run request holding 1..2 `test` blocks and 1..4 top-level statements in "
        "any order (the tests run first), every step of both phases being an interrupt point. "
        "After each `interrupted` reply the harness sends `:resume`. Oracle: concatenated printed "
        "output and the final value / error (message and position) equal those of the uninterrupted run, and exactly "
        "the planned number of interrupts is reported. Non-trivial = the program prints both before and after the "
        "interrupt point; distinct = distinct (program, plan).")
ASSUMPTIONS = ["the injection hook is the only way to hit a chosen step; a real `interrupt` request races with the "
               "evaluator and is not used as an oracle",
               "the first failure is worded by err_to_response and a failure after :resume by eval_to_response; "
               "assertion failures are compared by position only across that boundary"]
MANIFEST = dict(
    category="fault_enumeration",
    technique="exhaustive fault injection over every evaluation step of generated programs (plus random multi-point "
              "plans), differential against the uninterrupted run",
    text="Each generated program is interrupted at every one of its evaluation steps in turn (~25 programs x ~150 "
         "steps in quick, ~300 programs in thorough) and resumed; output and final result must be unchanged. "
         "Exhaustive over the steps of each generated program, sampled over programs.",
    note="Trusted: the 15-line guarded hook `verif_hook::interrupt_due` and the session driver.",
    ref="DESIGN.md section 3, C08",
)

MAX_T = {"quick": 260, "thorough": 1500}


def gen(r):
    knobs = G.Knobs(shadowing=r.bool(0.5), annotations=r.choice(["full", "none"]), errors=r.bool(0.4),
                    early_exit_bias=r.bool(0.4), exit_stress=r.bool(0.2), max_stmts=r.choice([3, 5, 8]),
                    max_funs=r.choice([0, 1, 2]), max_depth=2)
    g = G.Gen(r, knobs)
    prog = g.program()
    exp = c05.expected(prog)
    if exp is None:
        return {"skip": "model budget"}
    defs = []
    if prog.uses_color:
        defs.append("enum Color {\n  Red,\n  Green,\n  Custom(Int),\n}")
    for f in prog.funs:
        pr = G.Printer()
        pr.fundef(f)
        defs.append(pr.text())
    body = []
    for s in prog.main.stmts:
        pr = G.Printer()
        pr.stmt(s)
        body.append(pr.text())
    # the last top-level expression gives the final value; its shape decides what the evaluator still has to do when
    # the last step is reached
    body.append(r.choice(["4242", "(4242)", "4000 + 242", "(4000 + 242)", "[4242].len() + 4241", "((4242))"]))
    plans = []
    for _ in range(3):
        n = r.int(2, 5)
        pts = sorted({r.int(1, 200) for _ in range(n)})
        if r.bool(0.4) and pts:
            pts = sorted(set(pts + [pts[0] + 1]))
        plans.append(pts)
    return {"defs": "\n\n".join(defs) if defs else "let unused_def_marker = 0", "main": "\n".join(body),
            "plans": plans, "tail_picks": [r.int(1, 1000) for _ in range(3)], "features": sorted(G.features(prog))}


TESTS_SIG = "interrupt inside a `test` block of a run request: the rest of the request is never evaluated after :resume"


SUMMARY_SIG = "interrupt after the `test` blocks of a run request: the test summary is missing from the final result"


def gen_with_tests(r):
    """a run request that holds `test` blocks as well as top-level expressions: the tests run first, then the
    expressions; every step of both phases is an interrupt point"""
    defs = "fun work(n: Int): Int {\n  let i = 0\n  while i < n {\n    i += 1\n  }\n  i\n}"
    items = []
    nt = r.int(1, 2)
    for t in range(nt):
        body = [f'println("T{t}-start")']
        if r.bool():
            body.append(f"let w{t} = work({r.int(0, 3)})")
        body.append(r.choice([f"assert(work({r.int(1, 3)}) > 0)", f"assert(work(2) == {r.choice([2, 2, 5])})", "assert(True)"]))
        body.append(f'println("T{t}-end")')
        items.append(f"test t{t} {{\n  " + "\n  ".join(body) + "\n}")
    nx = r.int(1, 4)
    for x in range(nx):
        items.append(r.choice([f'println("X{x}")', f'println(string_repr(work({r.int(0, 3)})))',
                               f'let v{x} = work({r.int(1, 2)})\nprintln(string_repr(v{x} + {x}))']))
    order = r.sample(list(range(len(items))), len(items))
    main = "\n".join(items[i] for i in order)
    main += "\n" + r.choice(["4242", "(4242)", "4000 + 242", "work(2)"])
    plans = []
    for _ in range(3):
        pts = sorted({r.int(1, 120) for _ in range(r.int(2, 4))})
        plans.append(pts)
    # a failing assertion makes the test stop there: the last marker that is certainly printed by the tests phase
    # does not exist then, so the phase is recognised by the first top-level output instead
    return {"defs": defs, "main": main, "plans": plans, "tail_picks": [r.int(1, 1000) for _ in range(3)],
            "features": ["tests-and-expressions"], "has_tests": True}


def run_plan(ctx, case, points):
    n_resume = len(points) + 1
    reqs = [{"method": "run", "input": case["defs"]}, {"method": "run", "input": case["main"]}]
    reqs += [{"method": "run", "input": ":resume"}] * n_resume
    env = {"GDN_VERIF_INTERRUPT_AT": ",".join(str(p) for p in points)} if points else None
    return run_session(ctx, reqs, timeout=60, env=env)


def digest(sr):
    """-> (n_interrupts, printed_total, final (tag,text,pos), printed_before_first_interrupt, printed_after)"""
    answers = sr.responses()[1:]          # drop the definitions' reply
    n_int = 0
    printed = ""
    before = None
    final = None
    for out, err, resp in answers:
        tag, text, pos = summarize(resp)
        printed += out
        is_int = tag == "interrupted" or (tag == "error" and text == "Interrupted")
        if is_int:
            n_int += 1
            if before is None:
                before = printed
            continue
        final = (tag, text, tuple(pos) if pos else None)
        break
    after = printed[len(before):] if before is not None else ""
    return n_int, printed, final, before or "", after


def same_final(base, got):
    if base is None or got is None:
        return base == got
    if base[0] != got[0]:
        return False
    if base[0] == "value":
        return base[1] == got[1]
    if base[0] == "error":
        if base[2] != got[2]:
            return False
        b, g = base[1] or "", got[1] or ""
        if b == g or b == "Assertion failed" or g == "Assertion failed":
            return True
        return b.replace("Exception: ", "") == g.replace("Exception: ", "")
    return base[1] == got[1]


def check(case, ctx) -> Res:
    if case.get("skip"):
        return Res(ok=True, classes=("skipped",))
    base_sr = run_plan(ctx, case, [])
    prog_txt = case["defs"] + "\n--- second request ---\n" + case["main"]
    if base_sr.run.timed_out:
        return Res(ok=True, inconclusive=True, detail="baseline timeout\n" + prog_txt)
    if base_sr.run.crashed or base_sr.run.rc != 0:
        return Res(ok=True, inconclusive=True, detail="baseline session died (C02/C09 territory): " + base_sr.run.crash_sig())
    b_int, b_printed, b_final, _, _ = digest(base_sr)
    if b_int != 0 or b_final is None:
        return Res(ok=True, inconclusive=True, detail="baseline reported an interrupt")
    if b_final[0] == "parse_error":
        return Res(ok=True, classes=("generator-parse-error",))
    limit = MAX_T[ctx.tier]
    nt = 0
    evals = 1
    k = 1
    T = None

    def compare(points, sr, expect_all):
        n_int, printed, final, before, after = digest(sr)
        if sr.run.crashed or sr.run.rc != 0:
            return fail("session died after an interrupt: " + sr.run.crash_sig(),
                        f"interrupt points {points}\n{sr.run.err[-400:]}\n--- program\n{prog_txt}"), n_int, before, after
        if expect_all is not None and n_int != expect_all:
            return fail("number of reported interrupts differs from the plan",
                        f"interrupt points {points}: {n_int} interrupts reported\n--- program\n{prog_txt}"), n_int, before, after
        if printed != b_printed:
            return fail("printed output changed by an interrupt + resume",
                        f"interrupt points {points}\n--- uninterrupted output\n{b_printed}--- with interrupts\n{printed}"
                        f"--- program\n{prog_txt}"), n_int, before, after
        if not same_final(b_final, final):
            if case.get("has_tests") and b_final and final and b_final[0] == final[0] == "value" \
                    and b_final[1].startswith("Ran ") and b_final[1].endswith(f"evaluated to {final[1]}."):
                return fail(SUMMARY_SIG, f"interrupt points {points}\n  uninterrupted: {b_final}\n  with interrupts: {final}\n"
                                         f"--- program\n{prog_txt}"), n_int, before, after
            return fail("final result changed by an interrupt + resume",
                        f"interrupt points {points}\n  uninterrupted: {b_final}\n  with interrupts: {final}\n"
                        f"--- program\n{prog_txt}"), n_int, before, after
        return None, n_int, before, after

    known_hit = [None]
    summary_hit = [None]
    # what the uninterrupted run prints while its tests run: everything before the first top-level output
    tests_phase_out = None
    if case.get("has_tests"):
        cut = len(b_printed)
        for line_start in [i for i in range(len(b_printed)) if i == 0 or b_printed[i - 1] == "\n"]:
            if not b_printed[line_start:].startswith("T"):
                cut = line_start
                break
        tests_phase_out = b_printed[:cut]

    def decide(bad, n_int, before):
        """a mismatch whose first interrupt fell while the request's tests were running has one root cause (the
        remaining tests and the top-level expressions are kept in Rust locals, not on the resumable stack): it is
        remembered under its own signature and the exploration of the later steps goes on"""
        if bad is not None and tests_phase_out is not None and n_int >= 1 and len(before) <= len(tests_phase_out) \
                and tests_phase_out.startswith(before):
            if known_hit[0] is None:
                known_hit[0] = fail(TESTS_SIG, bad.detail)
            return None
        if bad is not None and bad.signature == SUMMARY_SIG:
            # same family (the request's bookkeeping is not on the resumable stack): remembered, exploration goes on
            if summary_hit[0] is None:
                summary_hit[0] = bad
            return None
        return bad

    while k <= limit:
        sr = run_plan(ctx, case, [k])
        if sr.run.timed_out:
            return Res(ok=True, inconclusive=True, detail=f"timeout with interrupt at step {k}\n{prog_txt}")
        evals += 1
        bad, n_int, before, after = compare([k], sr, None)
        bad = decide(bad, n_int, before)
        if bad is not None:
            return bad
        if n_int == 0:
            T = k - 1
            break
        if before and after:
            nt += 1
        k += 1
    cls = []
    if T is None:
        T = limit
        cls.append("steps-capped")
    cls.append("T<50" if T < 50 else ("T<150" if T < 150 else "T>=150"))
    # plans whose LAST point is the final step of the already-resumed evaluation: every interrupt makes the
    # evaluator redo one step, so after n earlier interrupts the final step is step T + n
    structured = []
    if T >= 2 and "steps-capped" not in cls:
        picks = case.get("tail_picks") or [1, 2, 3]
        for q in picks[:3]:
            p1 = 1 + (q * 7919) % T
            structured.append(sorted({p1, T + 1}))
        structured.append([T, T + 1])
        if T >= 4:
            structured.append(sorted({1 + (picks[0] * 31) % T, 1 + (picks[-1] * 17) % T}) + [T + 2])
    for plan in structured:
        if len(plan) < 2:
            continue
        sr = run_plan(ctx, case, plan)
        if sr.run.timed_out:
            return Res(ok=True, inconclusive=True, detail=f"timeout with interrupts at {plan}\n{prog_txt}")
        evals += 1
        bad, n_int, before, after = compare(plan, sr, None)
        bad = decide(bad, n_int, before)
        if bad is not None:
            return bad
        cls.append("final-step-plan")
    for plan in case["plans"]:
        pts = [p for p in plan if p <= max(T, 1)]
        if len(pts) < 2:
            continue
        sr = run_plan(ctx, case, pts)
        if sr.run.timed_out:
            return Res(ok=True, inconclusive=True, detail=f"timeout with interrupts at {pts}\n{prog_txt}")
        evals += 1
        bad, n_int, before, after = compare(pts, sr, None)
        bad = decide(bad, n_int, before)
        if bad is not None:
            return bad
        cls.append("multi-point-plan")
        if before and after:
            nt += 1
    if known_hit[0] is not None and summary_hit[0] is not None:
        return summary_hit[0] if len(case["main"]) % 2 == 0 else known_hit[0]
    if known_hit[0] is not None or summary_hit[0] is not None:
        return known_hit[0] or summary_hit[0]
    return Res(ok=True, nontrivial=nt > 0, classes=tuple(cls + (["tests-and-expressions"] if case.get("has_tests") else [])),
               extra=evals)


def show(case):
    return case.get("main", "")


SUBS = [Sub("every-step", check, gen=gen, cases={"quick": 32, "thorough": 400}, show=show),
        Sub("tests-and-expressions", check, gen=gen_with_tests, cases={"quick": 16, "thorough": 200}, show=show)]
