"""C31 — nREPL interrupt stops the running eval and no other."""
from __future__ import annotations

import time

from ..core import Res, Sub, fail
from .. import nrepl as N

PROPERTY_ID = "C31"
LEVEL = "exploration"
RULE = ("Randomised scenarios against the real `garden nrepl` TCP server (fresh process each), with a generated "
        "schedule perturbation of the server (guarded delay points: session worker before / after it resets the "
        "interrupt flag, interrupt handler, output flusher, before the final messages; 0 / 2 / 20 / 80 ms each) and "
        "generated client-side gaps. A scenario is a sequence of 2..6 phases on 1..2 sessions: (a) interrupt a running "
        "eval - an eval that prints a start marker and then loops forever (silently, printing, or inside nested "
        "calls) is interrupted 0..60 ms after its marker has been received, with 0..2 further evals already queued "
        "behind it; (b) interrupt an idle session (all its requests done) and then eval; (c) close a session whose "
        "eval is running - or was sent immediately before the close - with 0..2 further never-ending evals queued "
        "behind it; (d) interrupt one session while another session's eval runs; (e) interrupt an eval that is "
        "blocked in a built-in (`shell::run(\"sleep\", [\"6\"])`). Oracle: the interrupted eval "
        "ends within 30 s with status `interrupted` (and `done`); every eval queued behind it, and every eval sent "
        "after an idle interrupt, runs to its normal value and is not reported interrupted; the other session's eval "
        "is unaffected; after `close` the running eval and every eval sent to the session before the close get their `done` within "
        "30 s (C30 promises a `done` for every request; these evals never end by themselves, so a missing `done` means "
        "the closed session is still evaluating); every request gets its `done`. "
        "Non-trivial = the scenario interrupts a running eval with at least one eval queued behind it, or uses a "
        "server delay point; distinct = distinct scenario.")
ASSUMPTIONS = ["an eval counts as executing once the client has received its start marker, so an interrupt sent "
               "after that must be honoured; an interrupt sent while the eval is still queued is not required to",
               "interleavings are perturbed, not enumerated (see C30)",
               "'promptly' is taken as 30 s, far above any injected delay; a missed deadline is a violation only if the same "
               "scenario misses it in two repetitions as well (otherwise inconclusive): deadlines measure the machine's "
               "load as much as the server"]
MANIFEST = dict(
    category="exploration",
    technique="randomised-schedule scenario testing of the real TCP server with injected delays at named points "
              "(model-checking the interleavings is outside this technique family: see DESIGN.md)",
    text="~240 (quick) / 6 000 (thorough) interrupt / close scenarios with generated timing; the running eval is "
         "interrupted promptly, queued and later evals are not, other sessions are unaffected.",
    note="Trusted: the bencode client; marker-based detection that an eval is executing.",
    ref="DESIGN.md section 3, C31",
)

LOOPS = [
    'println("{tag}-started")\nwhile True {{ 1 }}',
    'println("{tag}-started")\nlet n = 0\nwhile True {{ n += 1 }}',
    'println("{tag}-started")\nlet n = 0\nwhile True {{ n += 1\n if (n % 50000) == 0 {{ println("{tag}-tick") }} }}',
    'fun spin_{fn}(k: Int): Int {{ if k < 0 {{ 0 }} else {{ spin_{fn}(k) }} }}\nfun outer_{fn}(): Int {{ while True {{ [1, 2].map(fun(x: Int): Int {{ x + 1 }}) }} 1 }}\nprintln("{tag}-started")\nouter_{fn}()',
    'println("{tag}-started")\nfor i in range(0, 100000000) {{ i + 1 }}',
]


def gen(r):
    phases = []
    nsess = r.int(1, 2)
    hard = False
    for _ in range(r.int(2, 6)):
        k = r.weighted([(10, "interrupt_running"), (6, "idle_then_eval"), (4, "close_running"), (4, "cross_session"),
                        (1, "interrupt_blocking")])
        ph = {"k": k, "sess": r.int(0, nsess - 1), "loop": r.int(0, len(LOOPS) - 1), "wait_ms": r.choice([0, 0, 1, 5, 20, 60]),
              "queued": r.choice([0, 0, 1, 2]), "gap_ms": r.choice([0, 0, 1, 10]), "immediate": r.int(0, 2) == 0}
        if k == "interrupt_running" and ph["queued"]:
            hard = True
        phases.append(ph)
        if k == "close_running":
            break
    delays = N.gen_delays(r)
    return {"nsess": nsess, "phases": phases, "delays": delays, "nontrivial": hard or bool(delays)}


def run_scenario(case, ctx) -> Res:
    d = ctx.scratch.dir()
    srv = N.Server(d, case["delays"])
    cls = tuple(sorted({"phase:" + p["k"] for p in case["phases"]})) + tuple("delay:" + k for k in sorted(case["delays"]))
    hist = f"server delays {case['delays']}; " + " | ".join(
        f"{p['k']}(sess {p['sess']}, loop {p['loop']}, wait {p['wait_ms']}ms, queued {p['queued']}"
        f"{', immediate' if p.get('immediate') and p['k'] == 'close_running' else ''})" for p in case["phases"])
    if not srv.start():
        srv.stop()
        return Res(ok=True, inconclusive=True, detail="nrepl server did not start")
    c = None
    try:
        c = N.Client(srv.port)
        sessions = []
        for i in range(case["nsess"] + 1):         # one spare session for cross-session phases
            cid = f"clone{i}"
            c.send({"op": "clone", "id": cid})
            if not c.wait_msg(cid, lambda m: "new-session" in m, 60):
                return Res(ok=True, inconclusive=True, detail="clone not answered in 60 s")
            sessions.append([m["new-session"] for m in c.msgs_of(cid) if "new-session" in m][0])
        n = [0]

        def rid(p):
            n[0] += 1
            return f"{p}{n[0]}"

        def msgs_of(i):
            return c.msgs_of(i)

        def status_of(i):
            for m in msgs_of(i):
                if "done" in (m.get("status") or []):
                    return m["status"]
            return None

        def wait_done(i, t):
            return c.wait_done([i], t)

        def start_loop(sess, loop):
            i = rid("loop")
            code = LOOPS[loop].format(tag=i, fn=n[0])
            c.send({"op": "eval", "id": i, "session": sess, "code": code})
            ok = c.wait_msg(i, lambda m: f"{i}-started" in m.get("out", ""), 60)
            return i, ok

        def plain_eval(sess, tag):
            i = rid(tag)
            c.send({"op": "eval", "id": i, "session": sess, "code": f'println("{i}-ran")\n"{i}-value"'})
            return i

        def expect_normal(i, what):
            if not wait_done(i, 30):
                return fail(f"{what} never completes", f"eval {i}: {msgs_of(i)[:4]}\n--- scenario\n{hist}", classes=cls)
            st = status_of(i)
            vals = [m.get("value") for m in msgs_of(i) if "value" in m]
            if "interrupted" in st or vals != [f'"{i}-value"']:
                return fail(f"{what} is cancelled by an interrupt that was not for it",
                            f"eval {i}: status {st}, values {vals}, messages {msgs_of(i)[:5]}\n--- scenario\n{hist}", classes=cls)
            return None

        for ph in case["phases"]:
            sess = sessions[ph["sess"]]
            other = sessions[-1] if sessions[-1] != sess else sessions[0]
            if ph["k"] == "interrupt_running":
                li, started = start_loop(sess, ph["loop"])
                if not started:
                    return fail("a looping eval never starts", f"eval {li}: {msgs_of(li)[:3]}\n--- scenario\n{hist}", classes=cls)
                queued = [plain_eval(sess, "queued") for _ in range(ph["queued"])]
                if ph["wait_ms"]:
                    time.sleep(ph["wait_ms"] / 1000.0)
                ii = rid("int")
                c.send({"op": "interrupt", "id": ii, "session": sess})
                if not wait_done(li, 30):
                    return fail("interrupt does not stop the running eval within 30 s",
                                f"eval {li} (loop {ph['loop']}) still running; interrupt answer: {msgs_of(ii)}\n--- scenario\n{hist}",
                                classes=cls)
                if "interrupted" not in status_of(li):
                    return fail("interrupted eval does not report status `interrupted`",
                                f"eval {li}: status {status_of(li)}\n--- scenario\n{hist}", classes=cls)
                if not wait_done(ii, 30):
                    return fail("interrupt request gets no `done`", f"--- scenario\n{hist}", classes=cls)
                for q in queued:
                    bad = expect_normal(q, "an eval queued behind the interrupted one")
                    if bad:
                        return bad
            elif ph["k"] == "idle_then_eval":
                ii = rid("idleint")
                c.send({"op": "interrupt", "id": ii, "session": sess})
                if ph["gap_ms"]:
                    time.sleep(ph["gap_ms"] / 1000.0)
                e = plain_eval(sess, "afteridle")
                bad = expect_normal(e, "the eval after an idle interrupt")
                if bad:
                    return bad
                if not wait_done(ii, 30):
                    return fail("interrupt request gets no `done`", f"--- scenario\n{hist}", classes=cls)
            elif ph["k"] == "cross_session":
                li, started = start_loop(sess, ph["loop"])
                if not started:
                    return fail("a looping eval never starts", f"--- scenario\n{hist}", classes=cls)
                ii = rid("otherint")
                c.send({"op": "interrupt", "id": ii, "session": other})
                e = plain_eval(other, "othersess")
                bad = expect_normal(e, "an eval in another session")
                if bad:
                    return bad
                time.sleep(0.05)
                if status_of(li) is not None:
                    return fail("an interrupt for another session stops this session's eval",
                                f"eval {li}: status {status_of(li)}\n--- scenario\n{hist}", classes=cls)
                i2 = rid("int")
                c.send({"op": "interrupt", "id": i2, "session": sess})
                if not wait_done(li, 30) or "interrupted" not in status_of(li):
                    return fail("interrupt does not stop the running eval within 30 s",
                                f"eval {li}: status {status_of(li)}\n--- scenario\n{hist}", classes=cls)
            elif ph["k"] == "interrupt_blocking":
                # an eval that is executing a blocking built-in (an external process that sleeps 6 s)
                li = rid("block")
                c.send({"op": "eval", "id": li, "session": sess,
                        "code": f'import "__shell.gdn" as shell\nprintln("{li}-started")\nshell::run("sleep", ["6"])'})
                if not c.wait_msg(li, lambda m: f"{li}-started" in m.get("out", ""), 60):
                    return fail("a looping eval never starts", f"--- scenario\n{hist}", classes=cls)
                time.sleep(0.3)
                t0 = time.monotonic()
                ii = rid("int")
                c.send({"op": "interrupt", "id": ii, "session": sess})
                done = wait_done(li, 30)
                took = time.monotonic() - t0
                if done and "interrupted" not in (status_of(li) or []) and took > 3.0:
                    return fail("interrupt does not stop an eval blocked in shell::run",
                                f"eval {li} ended {took:.1f} s after the interrupt with status {status_of(li)} "
                                f"(the external `sleep 6` ran to its end)\n--- scenario\n{hist}", classes=cls)
                if not done:
                    return fail("interrupt does not stop the running eval within 30 s", f"eval {li} (blocking)\n--- scenario\n{hist}",
                                classes=cls)
            elif ph["k"] == "close_running":
                if ph.get("immediate"):
                    # the close follows the eval without waiting for its start marker: the eval may still be queued
                    li = rid("loop")
                    c.send({"op": "eval", "id": li, "session": sess, "code": LOOPS[ph["loop"]].format(tag=li, fn=n[0])})
                else:
                    li, started = start_loop(sess, ph["loop"])
                    if not started:
                        return fail("a looping eval never starts", f"--- scenario\n{hist}", classes=cls)
                # further never-ending evals queued behind it: the close must not let them run on
                behind = []
                for _ in range(ph["queued"]):
                    qi = rid("loopq")
                    c.send({"op": "eval", "id": qi, "session": sess, "code": LOOPS[ph["loop"]].format(tag=qi, fn=n[0])})
                    behind.append(qi)
                if ph["wait_ms"]:
                    time.sleep(ph["wait_ms"] / 1000.0)
                ci = rid("close")
                c.send({"op": "close", "id": ci, "session": sess})
                if not wait_done(ci, 30):
                    return fail("close request gets no `done`", f"--- scenario\n{hist}", classes=cls)
                if not wait_done(li, 30):
                    if ph.get("immediate"):
                        return fail("an eval sent just before `close` runs on after the session is closed",
                                    f"eval {li}: {msgs_of(li)[-2:]}\n--- scenario\n{hist}", classes=cls)
                    return fail("closing a session does not stop its running eval within 30 s",
                                f"eval {li}: {msgs_of(li)[-2:]}\n--- scenario\n{hist}", classes=cls)
                for qi in behind:
                    if not wait_done(qi, 30):
                        return fail("an eval queued behind the running one runs on after the session is closed",
                                    f"eval {qi}: {msgs_of(qi)[-2:]}\n--- scenario\n{hist}", classes=cls)
                break
        if not srv.alive() or "panicked at" in srv.stderr_text():
            return fail("nrepl server died", f"{srv.stderr_text()[-500:]}\n--- scenario\n{hist}", classes=cls)
        return Res(ok=True, nontrivial=case["nontrivial"], classes=cls)
    except OSError as e:
        if not srv.alive():
            return fail("nrepl server died", f"{srv.stderr_text()[-500:]}\n--- scenario\n{hist}", classes=cls)
        return Res(ok=True, inconclusive=True, detail=f"socket error {e}")
    finally:
        if c is not None:
            c.close()
        srv.stop()


def check(case, ctx) -> Res:
    res = run_scenario(case, ctx)
    if res.ok or not any(w in res.signature for w in ("within 30 s", "never completes", "never starts", "no `done`")):
        return res
    # a deadline was missed.  Deadlines measure this machine as much as the server, so the scenario is repeated twice
    # (injected delays make the logic races reproducible); it only counts when it misses the deadline again
    again = [run_scenario(case, ctx) for _ in range(2)]
    if all(not a.ok and a.signature == res.signature for a in again):
        return res
    return Res(ok=True, inconclusive=True, detail="deadline missed once, not on repetition: " + res.signature)


def show(case):
    return {"delays": case["delays"], "phases": [f"{p['k']}/s{p['sess']}/l{p['loop']}/w{p['wait_ms']}/q{p['queued']}" for p in case["phases"]]}


SUBS = [Sub("scenarios", check, gen=gen, cases={"quick": 240, "thorough": 6000}, show=show)]
