"""C32 — prelude string and list functions match their specification (and always terminate)."""
from __future__ import annotations

import itertools

from ..core import Res, Sub, fail, run_garden
from ..evalbatch import eval_cases

PROPERTY_ID = "C32"
LEVEL = "exploration"
EXHAUSTIVE = True
RULE = ("Exhaustive: every listed one-string function on all 259 strings of length 0..3 over {a, b, space, comma, é, "
        "☃}; the trim functions also on all 341 strings of length 0..4 over {a, space, tab, newline} (the doc comments "
        "say they remove whitespace); every two-string function on all pairs of strings of length 0..2 (1 849 pairs; with an empty needle "
        "only contains / starts_with / ends_with / strip_prefix / strip_suffix / index_of are compared, the rest go to "
        "the termination sub-check); substring on all strings of length <= 3 x from,to in -1..4 and 99; list functions on "
        "all Int lists of length 0..3 over {-1, 0, 2} with index arguments in -4..4; min/max/range on a boundary set. "
        "Random: strings up to 40 characters and lists up to 6. Oracle: a reference implementation written from the "
        "doc comments and the prelude's own tests (character, not byte, indices; substring errors when from < 0 or "
        "from > to and clamps `to`; lines drops one final newline; slice with a negative end counts from the back). "
        "Termination: every two-string function with an EMPTY needle must return within the watchdog (5 s, re-run at "
        "50 s); the results of split / split_once / replace / join with an empty needle are not asserted. "
        "Non-trivial = an argument is empty, multi-byte, or at an index boundary; distinct = distinct call.")
ASSUMPTIONS = ["the reference implementation below is the specification of record; results of split / split_once / "
               "replace / join for an empty needle are not asserted, only termination"]
MANIFEST = dict(
    category="exploration",
    technique="exhaustive small-scope enumeration + random arguments against a reference implementation; watchdog "
              "oracle for termination",
    text="~25 000 calls (quick) of the prelude's string and list functions evaluated by the real interpreter and "
         "compared with a reference implementation; every call must also terminate.",
    note="Trusted: the reference functions in this file (written from doc comments and prelude tests).",
    ref="DESIGN.md section 3, C32",
)

ALPHA = ["a", "b", " ", ",", "é", "☃"]


def gs(s: str) -> str:
    return '"' + s.replace("\\", "\\\\").replace('"', '\\"').replace("\n", "\\n") + '"'


def rs(s: str) -> str:
    return gs(s)


def rlist(xs) -> str:
    return "[" + ", ".join(rs(x) if isinstance(x, str) else r_any(x) for x in xs) + "]"


def r_any(v) -> str:
    if isinstance(v, bool):
        return "True" if v else "False"
    if isinstance(v, int):
        return str(v)
    if isinstance(v, str):
        return rs(v)
    if isinstance(v, list):
        return "[" + ", ".join(r_any(x) for x in v) + "]"
    if isinstance(v, tuple) and v and v[0] == "Some":
        return f"Some({r_any(v[1])})"
    if v == ("None",):
        return "None"
    if isinstance(v, tuple) and v and v[0] == "T":
        return "(" + ", ".join(r_any(x) for x in v[1]) + ")"
    raise ValueError(v)


def gint(n):
    return f"({n})" if n < 0 else str(n)


ERR = object()

# ---- reference implementations -------------------------------------------------------------------------------


def m_split(s, n):
    if s == "":
        return []
    return s.split(n)


def m_split_once(s, n):
    i = s.find(n)
    if i < 0:
        return ("None",)
    return ("Some", ("T", [s[:i], s[i + len(n):]]))


def m_lines(s):
    if s == "":
        return []
    parts = s.split("\n")
    if s.endswith("\n"):
        parts = parts[:-1]
    return parts


def m_substring(s, a, b):
    if a < 0 or a > b:
        return ERR
    return s[a:min(b, len(s))]


def m_index_of(s, n):
    i = s.find(n)
    return ("None",) if i < 0 else ("Some", i)


def m_slice(xs, i, j):
    return xs[i:j]


def m_get(xs, i):
    return ("Some", xs[i]) if 0 <= i < len(xs) else ("None",)


# "whitespace" in the doc comments of the trim functions: the characters a Garden string literal can express
WS = " \t\n"
ONE_STRING = {
    "trim_left": lambda s: s.lstrip(WS), "trim_right": lambda s: s.rstrip(WS), "trim": lambda s: s.strip(WS),
    "chars": lambda s: list(s), "len": lambda s: len(s), "lines": m_lines,
}
TWO_STRING = {
    "split": m_split, "split_once": m_split_once, "contains": lambda s, n: n in s,
    "starts_with": lambda s, n: s.startswith(n), "ends_with": lambda s, n: s.endswith(n),
    "strip_prefix": lambda s, n: s[len(n):] if s.startswith(n) else s,
    "strip_suffix": lambda s, n: s[:len(s) - len(n)] if (n and s.endswith(n)) else s,
    "index_of": m_index_of,
}


# with an empty needle these have exactly one defensible answer: every string contains / starts with / ends with
# the empty string, stripping it removes nothing, and its first index is 0 (also in the empty string)
FORCED_EMPTY = ["contains", "starts_with", "ends_with", "strip_prefix", "strip_suffix", "index_of"]


def strings(maxlen):
    for n in range(maxlen + 1):
        for t in itertools.product(ALPHA, repeat=n):
            yield "".join(t)


def calls_one_string(s):
    return [(f"{gs(s)}.{f}()", m(s)) for f, m in ONE_STRING.items()]


def calls_two_string(s, n):
    out = [(f"{gs(s)}.{f}({gs(n)})", m(s, n)) for f, m in TWO_STRING.items()]
    out.append((f"{gs(s)}.replace({gs(n)}, \"X\")", s.replace(n, "X")))
    out.append((f"{gs(s)}.replace({gs(n)}, \"\")", s.replace(n, "")))
    out.append((f"{gs(n)}.join([{gs(s)}, {gs(n)}, \"z\"])", n.join([s, n, "z"])))
    return out


def calls_substring(s):
    out = []
    for a in (-1, 0, 1, 2, 3, 4):
        for b in (-1, 0, 1, 2, 3, 4, 99):
            out.append((f"{gs(s)}.substring({gint(a)}, {gint(b)})", m_substring(s, a, b)))
    return out


def calls_list(xs):
    L = "[" + ", ".join(gint(x) for x in xs) + "]"
    typed = f"({L})" if xs else "([1].slice(0, 0))"
    out = [
        (f"{typed}.len()", len(xs)), (f"{typed}.first()", ("Some", xs[0]) if xs else ("None",)),
        (f"{typed}.last()", ("Some", xs[-1]) if xs else ("None",)),
        (f"{typed}.enumerate()", [("T", [i, x]) for i, x in enumerate(xs)]),
        (f"sort_nums({typed})", sorted(xs)),
        (f"{typed}.concat([7, 8])", xs + [7, 8]), (f"[7].concat({typed})", [7] + xs),
        (f"{typed}.map(fun(x: Int): Int {{ x + 1 }})", [x + 1 for x in xs]),
        (f"{typed}.filter(fun(x: Int): Bool {{ x > (-1) }})", [x for x in xs if x > -1]),
        (f"{typed}.contains(2)", 2 in xs), (f"{typed}.contains(5)", 5 in xs),
        (f"{typed}.index_of(2)", ("Some", xs.index(2)) if 2 in xs else ("None",)),
        (f"{typed}.append(9)", xs + [9]),
    ]
    for i in range(-4, 5):
        out.append((f"{typed}.get({gint(i)})", m_get(xs, i)))
    for i in range(0, len(xs) + 2):
        for j in range(-len(xs), len(xs) + 3):
            out.append((f"{typed}.slice({gint(i)}, {gint(j)})", m_slice(xs, i, j)))
    return out


def calls_ints():
    B = [-(2 ** 63) + 1, -3, -1, 0, 1, 2, 5, 2 ** 62, 2 ** 63 - 1]
    out = []
    for a in B:
        for b in B:
            out.append((f"min({gint(a)}, {gint(b)})", min(a, b)))
            out.append((f"max({gint(a)}, {gint(b)})", max(a, b)))
    for a in (-3, -1, 0, 1, 4):
        for b in (-3, -1, 0, 1, 4, 6):
            out.append((f"range({gint(a)}, {gint(b)})", list(range(a, b))))
    return out


def check_calls(case, ctx) -> Res:
    calls = case["calls"]
    snippets = [f"println(string_repr({src}))" for src, _ in calls]
    outs = eval_cases(ctx, snippets, timeout=60)
    nt = 0
    for (src, exp), o in zip(calls, outs):
        if o is None:
            return Res(ok=True, inconclusive=True, detail=f"no outcome for {src}")
        if o.kind == "timeout":
            # the batch ran out of its 60 s: decide on the call alone, with a budget no machine load explains
            r1 = run_garden(["run", "-c", f"println(string_repr({src}))"], cwd=ctx.scratch.root, timeout=180)
            if r1.timed_out:
                return fail("call does not terminate", f"`{src}` did not return within 180 s")
            return Res(ok=True, inconclusive=True, detail=f"`{src}`: batch timeout not reproduced alone")
        if o.kind == "crash":
            return fail(o.msg, f"`{src}` crashed the interpreter: {o.msg}")
        if o.kind == "parse_error":
            return Res(ok=True, inconclusive=True, detail=f"harness produced unparseable call: {src}\n{o.msg[:200]}")
        fname = src.split("(")[0].split(".")[-1] if "." in src.split("(")[0] else src.split("(")[0]
        fname = fname.strip('"')
        if exp == "ERR":
            if o.kind != "err":
                return fail(f"{call_name(src)}: expected an error", f"`{src}` returned {o.out.strip()!r}; the specification says it is an error")
            nt += 1
            continue
        if o.kind != "ok":
            return fail(f"{call_name(src)}: unexpected error", f"`{src}` raised {o.msg[:200]!r}; expected {exp}")
        got = o.out[:-1] if o.out.endswith("\n") else o.out
        if got != exp:
            return fail(f"{call_name(src)}: wrong result", f"`{src}` returned {got}; the reference says {exp}")
        if '""' in src or "é" in src or "☃" in src or "[]" in src or "(-" in src:
            nt += 1
    return Res(ok=True, nontrivial=nt > 0, classes=("batch",), extra=len(calls))


def call_name(src):
    import re
    m = re.search(r"\.(\w+)\([^.]*$", src)
    if m:
        return m.group(1)
    return src.split("(")[0]


def enc(calls):
    return [[s, ("ERR" if e is ERR else r_any(e))] for s, e in calls]


def enum_batches(tier):
    batch = []

    def flush():
        nonlocal batch
        b, batch = batch, []
        return {"calls": b}
    for s in strings(3):
        batch += enc(calls_one_string(s))
        batch += enc(calls_substring(s)) if len(s) <= 2 or tier == "thorough" else []
        if len(batch) >= 150:
            yield flush()
    for k in range(0, 5):
        for t in itertools.product(["a", " ", "\t", "\n"], repeat=k):
            w = "".join(t)
            batch += enc([(f"{gs(w)}.{f}()", ONE_STRING[f](w)) for f in ("trim", "trim_left", "trim_right")])
            if len(batch) >= 150:
                yield flush()
    for s in strings(2):
        for n in strings(2):
            if n == "":
                # results with an empty needle are compared only where they are forced (see RULE)
                batch += enc([(f"{gs(s)}.{f}(\"\")", TWO_STRING[f](s, "")) for f in FORCED_EMPTY])
                continue
            batch += enc(calls_two_string(s, n))
            if len(batch) >= 150:
                yield flush()
    for k in range(0, 4):
        for xs in itertools.product([-1, 0, 2], repeat=k):
            batch += enc(calls_list(list(xs)))
            if len(batch) >= 150:
                yield flush()
    batch += enc(calls_ints())
    if batch:
        yield flush()


def gen_random(r):
    calls = []
    for _ in range(r.int(5, 30)):
        k = r.int(0, 3)
        if k == 0:
            s = "".join(r.choice(ALPHA + ["\n", "c"]) for _ in range(r.int(0, 40)))
            calls += enc(calls_one_string(s)[:r.int(1, 6)])
        elif k == 1:
            s = "".join(r.choice(ALPHA) for _ in range(r.int(0, 20)))
            n = "".join(r.choice(ALPHA) for _ in range(r.int(1, 3)))
            calls += enc(r.sample(calls_two_string(s, n), 4))
        elif k == 2:
            s = "".join(r.choice(ALPHA) for _ in range(r.int(0, 12)))
            a, b = r.int(-2, 14), r.int(-2, 14)
            calls.append([f"{gs(s)}.substring({gint(a)}, {gint(b)})", "ERR" if m_substring(s, a, b) is ERR else r_any(m_substring(s, a, b))])
        else:
            xs = [r.choice([-5, -1, 0, 1, 2, 2, 9, 100]) for _ in range(r.int(0, 6))]
            calls += enc(r.sample(calls_list(xs), 6))
    return {"calls": calls}


# ---- termination with empty needles -------------------------------------------------------------------------

def enum_termination(tier):
    for s in ["", "a", "ab", "a,b", "é☃"]:
        for f in ["split", "split_once", "contains", "starts_with", "ends_with", "strip_prefix", "strip_suffix", "index_of"]:
            yield {"call": f"{gs(s)}.{f}(\"\")"}
        yield {"call": f"{gs(s)}.replace(\"\", \"X\")"}
        yield {"call": f"\"\".join([{gs(s)}])"}


def check_termination(case, ctx) -> Res:
    src = f"println(string_repr({case['call']}))"
    r = run_garden(["run", "-c", src], cwd=ctx.scratch.root, timeout=5)
    if r.timed_out:
        r = run_garden(["run", "-c", src], cwd=ctx.scratch.root, timeout=50)
        if r.timed_out:
            f = call_name(case["call"])
            return fail(f"{f} with an empty needle does not terminate", f"`{case['call']}` did not return within 50 s")
    if r.crashed:
        return fail(r.crash_sig(), f"`{case['call']}` crashed the interpreter")
    return Res(ok=True, nontrivial=True, classes=("empty-needle",))


def show(case):
    if "call" in case:
        return case["call"]
    return [c[0] for c in case["calls"][:5]]


SUBS = [
    Sub("termination", check_termination, enum=enum_termination, show=show),
    Sub("exhaustive", check_calls, enum=enum_batches, show=show),
    Sub("random", check_calls, gen=gen_random, cases={"quick": 200, "thorough": 8000}, show=show),
]
