"""C14 — subtyping is a preorder with the documented variance."""
from __future__ import annotations

import numpy as np

from ..core import Res, Sub, fail
from ..model import types as TY

PROPERTY_ID = "C14"
LEVEL = "exploration"
EXHAUSTIVE = True
RULE = ("Exhaustive: all ordered pairs (and, through a boolean matrix product, all triples) of the depth-1 universe "
        "(~260 types over Any, NoValue, Int, String, Bool, Unit, an enum, type parameters T and U, List/Option/Dict/"
        "Box/1, Result/2, tuples of arity 0-2, Fun of arity 0-2) and of a depth-2 universe (~1 300 types), evaluated "
        "by the real is_subtype through the guarded hook. Checked: agreement with the independent reference relation "
        "on every pair, reflexivity, transitivity on every triple, Any top, NoValue bottom (the variance laws are "
        "instances inside the universe). Random: depth-3/4 chains a <: widen(a) <: widen(widen(a)) so that the "
        "transitivity antecedent is usually true. Error types are outside the domain. Non-trivial = a pair in the "
        "relation that is not reflexive and involves a constructor; distinct = distinct pair.")
ASSUMPTIONS = ["the property's 'by proof, unbounded' part is not delivered by this technique: exhaustive to depth 2 over "
               "a fixed signature, sampled beyond",
               "reference relation in gv/model/types.py, written from the property statement"]
MANIFEST = dict(
    category="exploration",
    technique="exhaustive bounded enumeration (all pairs and triples of a depth-bounded type universe) against a "
              "reference relation, plus random deep chains",
    text="~1.7 million ordered pairs and all triples of ~1 300 types are decided by the real is_subtype and compared "
         "with the reference relation and the preorder laws; deeper types are sampled. Exhaustive only to the stated "
         "depth; no unbounded claim.",
    note="Trusted: the 40-line reference relation; the hook's JSON<->Type conversion (direct construction of Type values).",
    ref="DESIGN.md section 3, C14",
)


def matrix(ctx, types):
    r = ctx.hook_call({"op": "types", "types": [TY.to_json(t) for t in types], "subtype_all_pairs": True}, timeout=300)
    if "died" in r or "panic" in r:
        return None, str(r)[:300]
    rows = r["subtype_matrix"]
    m = np.array([[c == "1" for c in row] for row in rows], dtype=bool)
    return m, None


def check_universe(case, ctx) -> Res:
    types = TY.universe1() if case["universe"] == 1 else TY.universe2()
    n = len(types)
    m, err = matrix(ctx, types)
    if m is None:
        return fail("is_subtype crashed", err)
    ref = np.array([[TY.subtype(a, b) for b in types] for a in types], dtype=bool)
    cls = (f"universe{case['universe']}", f"types:{n}")
    diff = np.argwhere(m != ref)
    if len(diff):
        i, j = diff[0]
        a, b = types[i], types[j]
        kind = "accepts" if m[i, j] else "rejects"
        shape = "/".join(sorted({a[0], b[0]}))
        return fail(f"is_subtype {kind} a pair the reference relation does not ({shape})",
                    f"{TY.show(a)} <: {TY.show(b)} : implementation {bool(m[i, j])}, reference {bool(ref[i, j])} "
                    f"({len(diff)} disagreeing pairs of {n * n})", classes=cls)
    if not m.diagonal().all():
        i = int(np.argmin(m.diagonal()))
        return fail("not reflexive", f"{TY.show(types[i])} is not a subtype of itself", classes=cls)
    mi = m.astype(np.int32)
    comp = (mi @ mi) > 0
    bad = np.argwhere(comp & ~m)
    if len(bad):
        i, k = bad[0]
        j = int(np.argmax(m[i, :] & m[:, k]))
        return fail("not transitive", f"{TY.show(types[i])} <: {TY.show(types[j])} <: {TY.show(types[k])} but not "
                                      f"{TY.show(types[i])} <: {TY.show(types[k])}", classes=cls)
    ia, inv = types.index(TY.ANY), types.index(TY.NOVALUE)
    if not m[:, ia].all():
        return fail("Any is not the top type", TY.show(types[int(np.argmin(m[:, ia]))]), classes=cls)
    if not m[inv, :].all():
        return fail("NoValue is not the bottom type", TY.show(types[int(np.argmin(m[inv, :]))]), classes=cls)
    nontrivial = int((m & ~np.eye(n, dtype=bool)).sum())
    return Res(ok=True, nontrivial=True, classes=cls + (f"pairs-in-relation:{nontrivial}",), extra=n * n)


def enum_universes(tier):
    yield {"universe": 1}
    yield {"universe": 2}


def gen_chains(r):
    triples = []
    for _ in range(r.int(5, 30)):
        a = TY.gen_type(r, r.int(1, 4))
        b = TY.widen(r, a)
        c = TY.widen(r, b)
        if r.bool(0.2):
            c = TY.gen_type(r, 2)
        triples.append([TY.to_json(a), TY.to_json(b), TY.to_json(c)])
    return {"triples": triples}


def check_chains(case, ctx) -> Res:
    table, pairs = [], []
    for t in case["triples"]:
        base = len(table)
        table += t
        pairs += [[base, base + 1], [base + 1, base + 2], [base, base + 2], [base, base], [base + 2, base]]
    r = ctx.hook_call({"op": "types", "types": table, "subtype": pairs}, timeout=60)
    if "died" in r or "panic" in r:
        return fail("is_subtype crashed", str(r)[:300])
    res = r["subtype"]
    nt = 0
    for k, t in enumerate(case["triples"]):
        a, b, c = (TY.from_json(x) for x in t)
        ab, bc, ac, aa, ca = res[5 * k: 5 * k + 5]
        exp = [TY.subtype(a, b), TY.subtype(b, c), TY.subtype(a, c), True, TY.subtype(c, a)]
        got = [ab, bc, ac, aa, ca]
        if got != exp:
            i = next(i for i in range(5) if got[i] != exp[i])
            names = ["a <: b", "b <: c", "a <: c", "a <: a", "c <: a"]
            return fail("is_subtype disagrees with the reference relation (deep type)",
                        f"{names[i]}: implementation {got[i]}, reference {exp[i]}\na = {TY.show(a)}\nb = {TY.show(b)}\nc = {TY.show(c)}")
        if ab and bc and not ac:
            return fail("not transitive (deep type)", f"a = {TY.show(a)}\nb = {TY.show(b)}\nc = {TY.show(c)}")
        if ab and bc and a != b and b != c:
            nt += 1
    return Res(ok=True, nontrivial=nt > 0, classes=("deep-chains",), extra=len(case["triples"]))


def show(case):
    if "universe" in case:
        return f"universe {case['universe']}"
    return [[TY.show(TY.from_json(x)) for x in t] for t in case["triples"][:3]]


SUBS = [
    Sub("universes", check_universe, enum=enum_universes, show=show, shards=2),
    Sub("deep-chains", check_chains, gen=gen_chains, cases={"quick": 400, "thorough": 20000}, show=show),
]
