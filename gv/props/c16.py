"""C16 — programs that pass `check` raise no runtime type errors."""
from __future__ import annotations

import json
import re

from ..core import Res, Sub, fail, run_garden
from ..gen import core as G

PROPERTY_ID = "C16"
LEVEL = "exploration"
RULE = ("(1) type-flow programs: a producer expression of type A (12 types: Int, String, Bool, Float, List<Int>, "
        "List<String>, Option<Int>, (Int, String), a user enum, a user struct, Fun<(Int), Int>, Unit) is carried "
        "through 0..4 type-preserving carriers (let with / without hint, tuple + destructuring, list + get / first / "
        "for, Some / Ok + match, generic identity function, generic struct field, annotated closure call / argument, "
        "dict + get, if / else, re-assignment, concrete pass-through function and method, while body, early return "
        "from a helper) into a consumer that needs type B (annotated parameter, let hint, operator, method, return "
        "value, the result and an early `return` of a function literal, condition, loop, pattern, field, call), the whole "
        "flow written inside a function or as top-level statements - A = B in 40% of cases, otherwise a different type; plus "
        "name / arity / exhaustiveness slips at the consumer (extra / missing argument, unknown method, field, "
        "variable, function, a missing match arm, calling a non-function, reading a top-level `let` from a function). "
        "(2) G-core well-typed programs and their single-span mutants (an expression replaced by a literal of another "
        "type, an argument dropped or duplicated, a variable / method renamed to an unknown one, a hint changed). "
        "Every function, method and closure carries full annotations. Programs `garden check` rejects (any "
        "error-severity diagnostic) are discarded and counted; accepted ones are run, and a runtime error whose "
        "message is type-related (wrong type, arity, non-function call, unknown variable / method / field / type, "
        "tuple size, failed hint, non-exhaustive match) is a violation. Non-trivial = check accepted the program and "
        "the consumer / mutated code was reached (a marker line printed just before it); distinct = distinct source.")
ASSUMPTIONS = ["'type-related' is decided from the runtime message by the patterns in TYPE_ERROR_PATTERNS (taken from "
               "eval.rs's message texts); division by zero, overflow, failed assert, throw, or_throw are not",
               "warnings do not count as `check` errors"]
MANIFEST = dict(
    category="exploration",
    technique="type-directed generation of (ill-)typed data-flow programs and mutation of well-typed generated "
              "programs; differential oracle between `garden check` (accepts) and `garden run` (type error)",
    text="~1 600 (quick) / 60 000 (thorough) fully annotated programs; every one that `check` accepts is run and must "
         "not end in a type-related runtime error.",
    note="Trusted: the classification of runtime messages as type-related; the generators' claim that every "
         "function / method / closure is fully annotated.",
    ref="DESIGN.md section 3, C16",
)

TYPE_ERROR_PATTERNS = [
    (r"^Expected `.+` but .+ has type `", "wrong-type"),
    (r"^Expected `.+` but got `Unit`", "wrong-type"),
    (r"requires \d+ arguments?, but got", "arity"),
    (r"Expected a tuple with \d+ items", "tuple-size"),
    (r"^No such variable", "unknown-variable"),
    (r"is not currently bound", "unknown-variable"),
    (r"no method named", "unknown-method"),
    (r"no field named|does not have a field named|Incorrect type for field|Missing fields from", "field"),
    (r"Unbound type in hint|No such type", "unknown-type"),
    (r"No cases in this `match`|Expected an enum variant named|Patterns must be enum variants", "match"),
    (r"does not contain a function named|but nothing is defined with that name", "unknown-function"),
]
MARK = "@@reached@@"

DEFS = """enum Color { Red, Green, Custom(Int) }
struct Pt { x: Int, label: String }
struct Box<T> { v: T }
fun id<T>(x: T): T { x }
fun pass_int(x: Int): Int { x }
fun pass_str(x: String): String { x }
fun takes_int(x: Int): Unit { println(string_repr(x)) }
fun takes_str(x: String): Unit { println(x) }
fun takes_bool(x: Bool): Unit { println(string_repr(x)) }
fun takes_float(x: Float): Unit { println(string_repr(x)) }
fun takes_list_int(x: List<Int>): Unit { println(string_repr(x)) }
fun takes_list_str(x: List<String>): Unit { println(string_repr(x)) }
fun takes_opt_int(x: Option<Int>): Unit { println(string_repr(x)) }
fun takes_pair(x: (Int, String)): Unit { println(string_repr(x)) }
fun takes_color(x: Color): Unit { println(string_repr(x)) }
fun takes_pt(x: Pt): Unit { println(string_repr(x)) }
fun takes_fun(x: Fun<(Int), Int>): Unit { println(string_repr(x(1))) }
fun takes_unit(x: Unit): Unit { println(string_repr(x)) }
fun inc(x: Int): Int { x + 1 }
fun shout(x: String): Int { x.len() }
method pass_m(this: Int): Int { this }
method pass_m(this: String): String { this }
"""

TYPES = {
    "Int": dict(hint="Int", prods=["7", "inc(2)", '"abc".len()', "Pt{ x: 3, label: \"l\" }.x", "(1 + 2)"], takes="takes_int"),
    "String": dict(hint="String", prods=['"s"', 'pass_str("t")', '("a" ^ "b")', "Pt{ x: 3, label: \"l\" }.label"], takes="takes_str"),
    "Bool": dict(hint="Bool", prods=["True", "(1 < 2)", "not(False)"], takes="takes_bool"),
    "Float": dict(hint="Float", prods=["1.5", "(1.0 +. 2.0)", "3.as_float()"], takes="takes_float"),
    "ListInt": dict(hint="List<Int>", prods=["[1, 2]", "[1].append(2)", "range(0, 2)"], takes="takes_list_int"),
    "ListStr": dict(hint="List<String>", prods=['["a"]', '"a,b".split(",")'], takes="takes_list_str"),
    "OptInt": dict(hint="Option<Int>", prods=["Some(1)", "[1].get(0)", "[5].first()"], takes="takes_opt_int"),
    "Pair": dict(hint="(Int, String)", prods=['(1, "p")'], takes="takes_pair"),
    "Color": dict(hint="Color", prods=["Red", "Custom(3)"], takes="takes_color"),
    "Pt": dict(hint="Pt", prods=['Pt{ x: 1, label: "l" }'], takes="takes_pt"),
    "Fun": dict(hint="Fun<(Int), Int>", prods=["inc", "fun(q: Int): Int { q * 2 }"], takes="takes_fun"),
    "Unit": dict(hint="Unit", prods=["Unit", 'println("u")'], takes="takes_unit"),
}
TNAMES = list(TYPES)


class Flow:
    """builds the body of `fun flow(): Unit`: statements as nested text with a continuation"""

    def __init__(self, r, a):
        self.r = r
        self.a = a
        self.n = 0
        self.helpers = []

    def fresh(self, p="v"):
        self.n += 1
        return f"{p}{self.n}"

    def other_prod(self):
        return self.r.choice(TYPES[self.a]["prods"])


def carriers():
    """name -> function(flow, expr_src, k) -> list of lines; k(expr_src) gives the continuation's lines"""
    def c_let(f, e, k):
        v = f.fresh()
        return [f"let {v} = {e}"] + k(v)

    def c_let_hint(f, e, k):
        v = f.fresh()
        return [f"let {v}: {TYPES[f.a]['hint']} = {e}"] + k(v)

    def c_tuple(f, e, k):
        t, v, w = f.fresh("t"), f.fresh(), f.fresh("_w")
        if f.r.bool():
            return [f"let {t} = ({e}, 0)", f"let ({v}, {w}) = {t}"] + k(v)
        return [f"let ({w}, {v}) = (\"pad\", {e})"] + k(v)

    def c_list_get(f, e, k):
        l = f.fresh("l")
        acc = f.r.choice([f"{l}.get(0).or_throw()", f"{l}.first().or_throw()", f"{l}.last().or_throw()"])
        return [f"let {l} = [{e}]"] + k(acc)

    def c_list_for(f, e, k):
        it = f.fresh("it")
        return [f"for {it} in [{e}] {{"] + ["  " + x for x in k(it)] + ["}"]

    def c_some_match(f, e, k):
        v = f.fresh()
        return [f"match Some({e}) {{", f"  Some({v}) => {{"] + ["    " + x for x in k(v)] + ["  }", "  None => {}", "}"]

    def c_ok_match(f, e, k):
        v = f.fresh()
        return [f"match Ok({e}) {{", f"  Ok({v}) => {{"] + ["    " + x for x in k(v)] + ["  }", "  Err(_) => {}", "}"]

    def c_or_value(f, e, k):
        return k(f"Some({e}).or_value({f.other_prod()})")

    def c_id(f, e, k):
        return k(f"id({e})")

    def c_box(f, e, k):
        b = f.fresh("b")
        if f.r.bool():
            return [f"let {b} = Box{{ v: {e} }}"] + k(f"{b}.v")
        return k(f"Box{{ v: {e} }}.v")

    def c_closure_ret(f, e, k):
        c = f.fresh("c")
        return [f"let {c} = fun(): {TYPES[f.a]['hint']} {{ {e} }}"] + k(f"{c}()")

    def c_closure_arg(f, e, k):
        c = f.fresh("c")
        h = TYPES[f.a]["hint"]
        return [f"let {c} = fun(p: {h}): {h} {{ p }}"] + k(f"{c}({e})")

    def c_dict(f, e, k):
        d = f.fresh("d")
        return [f"let {d} = Dict[\"k\" => {e}]"] + k(f"{d}.get(\"k\").or_throw()")

    def c_if(f, e, k):
        v = f.fresh()
        return [f"let {v} = if {f.r.choice(['True', '1 < 2', 'False'])} {{ {e} }} else {{ {f.other_prod()} }}"] + k(v)

    def c_assign(f, e, k):
        v = f.fresh()
        return [f"let {v} = {f.other_prod()}", f"{v} = {e}"] + k(v)

    def c_pass(f, e, k):
        if f.a == "Int":
            return k(f.r.choice([f"pass_int({e})", f"({e}).pass_m()"]))
        if f.a == "String":
            return k(f.r.choice([f"pass_str({e})", f"({e}).pass_m()"]))
        return k(f"id(id({e}))")

    def c_while(f, e, k):
        i = f.fresh("i")
        return [f"let {i} = 0", f"while {i} < 1 {{", f"  {i} += 1"] + ["  " + x for x in k(e)] + ["}"]

    def c_match_value(f, e, k):
        v = f.fresh()
        return [f"let {v} = match Some(0) {{ Some(_) => {e}, None => {f.other_prod()} }}"] + k(v)

    def c_paren(f, e, k):
        return k(f"({e})")

    return dict(let=c_let, let_hint=c_let_hint, tuple=c_tuple, list_get=c_list_get, list_for=c_list_for,
                some_match=c_some_match, ok_match=c_ok_match, or_value=c_or_value, id=c_id, box=c_box,
                closure_ret=c_closure_ret, closure_arg=c_closure_arg, dict=c_dict, if_else=c_if, assign=c_assign,
                pass_fn=c_pass, while_body=c_while, match_value=c_match_value, paren=c_paren)


CARRIERS = carriers()


def consumers(b):
    """consumer kind -> function(expr) -> lines; each needs a value of type b at run time"""
    t = TYPES[b]
    out = {
        "param": lambda e: [f"{t['takes']}({e})"],
        "let_hint": lambda e: [f"let z: {t['hint']} = {e}", "println(string_repr(z))"],
        "return": None,        # handled by the program builder: the flow function returns the value
        "list_elem": lambda e: [f"let zs: List<{t['hint']}> = [{e}]", "println(string_repr(zs))"],
        # an early `return` inside a function literal whose return type is B
        "lambda_return": lambda e: [f"let zr = fun(): {t['hint']} {{", f"  if True {{ return {e} }}", f"  {t['prods'][0]}", "}",
                                    "println(string_repr(zr()))"],
        "lambda_result": lambda e: [f"let zr = fun(): {t['hint']} {{ {e} }}", "println(string_repr(zr()))"],
        "closure_param": lambda e: [f"let zc = fun(p: {t['hint']}): Unit {{ println(string_repr(p)) }}", f"zc({e})"],
    }
    if b == "Int":
        out["operator"] = lambda e: [f"println(string_repr(({e}) + 1))"]
        out["method"] = lambda e: [f"println(string_repr(({e}).as_float()))"]
        out["range"] = lambda e: [f"println(string_repr(range(0, {e})))"]
    if b == "String":
        out["operator"] = lambda e: [f"println(({e}) ^ \"!\")"]
        out["method"] = lambda e: [f"println(string_repr(({e}).len()))"]
        out["println"] = lambda e: [f"println({e})"]
    if b == "Bool":
        out["operator"] = lambda e: [f"println(string_repr(({e}) && True))"]
        out["condition"] = lambda e: [f"if {e} {{ println(\"yes\") }} else {{ println(\"no\") }}"]
        out["while_cond"] = lambda e: [f"let wn = 0", f"while ({e}) && (wn < 1) {{ wn += 1 }}", "println(string_repr(wn))"]
    if b == "Float":
        out["operator"] = lambda e: [f"println(string_repr(({e}) +. 1.0))"]
    if b in ("ListInt", "ListStr"):
        out["loop"] = lambda e: [f"for zi in {e} {{ println(string_repr(zi)) }}"]
        out["method"] = lambda e: [f"println(string_repr(({e}).len()))"]
    if b == "ListInt":
        out["elem_use"] = lambda e: [f"for zi in {e} {{ takes_int(zi) }}"]
    if b == "OptInt":
        out["pattern"] = lambda e: [f"match {e} {{ Some(zv) => takes_int(zv), None => println(\"none\") }}"]
        out["method"] = lambda e: [f"takes_int(({e}).or_value(0))"]
    if b == "Pair":
        out["destructure"] = lambda e: [f"let (za, zb) = {e}", "takes_int(za)", "takes_str(zb)"]
    if b == "Color":
        out["pattern"] = lambda e: [f"match {e} {{ Red => println(\"r\"), Green => println(\"g\"), Custom(zn) => takes_int(zn) }}"]
    if b == "Pt":
        out["field"] = lambda e: [f"takes_int(({e}).x)", f"takes_str(({e}).label)"]
    if b == "Fun":
        out["call"] = lambda e: [f"takes_int(({e})(5))"]
    return out


SLIPS = ["extra_arg", "missing_arg", "unknown_method", "unknown_field", "unknown_variable", "unknown_function",
         "missing_arm", "call_non_function", "toplevel_let", "wrong_payload", "unknown_type", "tuple_size",
         "missing_struct_field", "unknown_struct_field"]


def slip_lines(kind, e, a):
    if kind == "extra_arg":
        return [f"takes_int(1, {e})"]
    if kind == "missing_arg":
        return [f"println(string_repr(id()))", f"println(string_repr({e}))"]
    if kind == "unknown_method":
        return [f"println(string_repr(({e}).no_such_method_zz()))"]
    if kind == "unknown_field":
        return [f"println(string_repr(({e}).no_such_field_zz))"]
    if kind == "unknown_variable":
        return [f"println(string_repr({e}))", "println(string_repr(no_such_variable_zz))"]
    if kind == "unknown_function":
        return [f"no_such_function_zz({e})"]
    if kind == "missing_arm":
        return [f"let zc = if True {{ Custom(1) }} else {{ Red }}", "match zc { Red => println(\"r\"), Green => println(\"g\") }",
                f"println(string_repr({e}))"]
    if kind == "call_non_function":
        return [f"println(string_repr(({e})(1)))"] if a != "Fun" else [f"println(string_repr(({e})(1, 2)))"]
    if kind == "toplevel_let":
        return [f"println(string_repr({e}))", "println(string_repr(top_level_value))"]
    if kind == "wrong_payload":
        return [f"let zc = Custom({e})", "println(string_repr(zc))"] if a != "Int" else [f"let zo: Option<String> = Some({e})", "println(string_repr(zo))"]
    if kind == "unknown_type":
        return [f"let zu: NoSuchTypeZz = {e}", "println(string_repr(zu))"]
    if kind == "tuple_size":
        return [f"let (za, zb, zc) = ({e}, 1)", "println(string_repr(za))"]
    if kind == "missing_struct_field":
        return [f"let zp = Pt{{ x: 1 }}", f"println(string_repr({e}))"]
    if kind == "unknown_struct_field":
        return [f"let zp = Pt{{ x: 1, label: \"l\", extra: {e} }}", "println(string_repr(zp))"]
    raise ValueError(kind)


def gen_flow(r):
    a = r.choice(TNAMES)
    mode = r.weighted([(4, "same"), (4, "different"), (2, "slip")])
    b = a
    if mode == "different":
        b = r.choice([t for t in TNAMES if t != a])
    f = Flow(r, a)
    chain = [r.choice(sorted(CARRIERS)) for _ in range(r.choice([0, 1, 1, 2, 2, 3, 4]))]
    prod = r.choice(TYPES[a]["prods"])
    slip = r.choice(SLIPS) if mode == "slip" else None
    cons_kinds = sorted(k for k in consumers(b))
    cons = r.choice(cons_kinds)
    # where the flow lives: inside `fun flow()` (checked against its return type) or as top-level statements
    place = r.choice(["fun", "fun", "toplevel"])
    if cons == "return" or slip == "toplevel_let":
        place = "fun"
    return {"a": a, "b": b, "mode": mode, "chain": chain, "prod": prod, "cons": cons, "slip": slip, "place": place,
            "picks": [r.int(0, (1 << 16) - 1) for _ in range(12)]}


class _Replay:
    """deterministic stand-in for R inside carriers, fed by the recorded picks (so a case is a pure value)"""

    def __init__(self, picks):
        self.picks, self.i = picks, 0

    def _next(self):
        v = self.picks[self.i % len(self.picks)]
        self.i += 1
        return v

    def bool(self):
        return self._next() % 2 == 0

    def choice(self, seq):
        return seq[self._next() * len(seq) >> 16]


def build_flow(case):
    a, b = case["a"], case["b"]
    f = Flow(_Replay(case["picks"]), a)
    ret_consumer = case["cons"] == "return" and not case["slip"]

    def final(e):
        lines = [f'println("{MARK}")']
        if case["slip"]:
            return lines + slip_lines(case["slip"], e, a)
        if ret_consumer:
            return lines + [f"return {e}"]
        return lines + consumers(b)[case["cons"]](e)

    def run_chain(i, e):
        if i == len(case["chain"]):
            return final(e)
        return CARRIERS[case["chain"][i]](f, e, lambda e2: run_chain(i + 1, e2))

    body = run_chain(0, case["prod"])
    src = DEFS
    if case["slip"] == "toplevel_let":
        src += "let top_level_value = 5\n"
    if ret_consumer:
        # the value is returned out of (possibly nested) statements; a default of type B ends the function
        src += f"fun flow(): {TYPES[b]['hint']} {{\n" + "".join("  " + x + "\n" for x in body) + \
               f"  {TYPES[b]['prods'][0]}\n}}\nprintln(string_repr(flow()))\n"
    elif case.get("place") == "toplevel":
        src += "".join(x + "\n" for x in body)
    else:
        src += "fun flow(): Unit {\n" + "".join("  " + x + "\n" for x in body) + "}\nflow()\n"
    return src


def classify_runtime(err: str):
    m = re.search(r"^Exception: (.*)$", err, re.M)
    if not m:
        return None, None
    msg = m.group(1)
    for pat, cls in TYPE_ERROR_PATTERNS:
        if re.search(pat, msg):
            return cls, msg
    return "other", msg


def check_errors(ctx, path):
    r = run_garden(["check", "--json", path], cwd=ctx.scratch.root, timeout=30)
    if r.timed_out:
        return None, r
    errs = []
    for line in r.out.splitlines():
        line = line.strip()
        if not line.startswith("{"):
            continue
        try:
            d = json.loads(line)
        except json.JSONDecodeError:
            continue
        if d.get("severity") == "error":
            errs.append(d.get("message", ""))
    if r.crashed:
        return None, r
    if r.rc not in (0, 1):
        return None, r
    return errs, r


def judge(ctx, src, sig_ctx, cls, expect_reject=False):
    path = ctx.scratch.file(src)
    errs, cr = check_errors(ctx, path)
    if errs is None:
        if cr.crashed:
            return fail("check crashed: " + cr.crash_sig(), f"{cr.err[-300:]}\n--- program\n{src}", classes=cls)
        return Res(ok=True, inconclusive=True, detail="check did not finish")
    if errs:
        return Res(ok=True, nontrivial=False, classes=cls + ("check:rejected",), detail=errs[0][:100])
    run = run_garden(["run", path], cwd=ctx.scratch.root, timeout=30)
    if run.timed_out:
        return Res(ok=True, inconclusive=True, detail="run timed out")
    if run.crashed:
        return Res(ok=True, inconclusive=True, detail="interpreter crashed (C02's business): " + run.crash_sig())
    kind, msg = classify_runtime(run.err)
    reached = MARK in run.out
    if kind and kind != "other":
        return fail(f"check accepts, run raises {kind} [{sig_ctx}]",
                    f"`garden check` reports no error, `garden run` fails with: {msg}\n--- stderr\n{run.err[:500]}\n--- program\n{src}",
                    classes=cls + ("check:accepted",))
    return Res(ok=True, nontrivial=reached, classes=cls + ("check:accepted", "ran:" + ("error-other" if kind else "ok")))


def flow_sig(case):
    if case["slip"]:
        return f"slip {case['slip']}" + (" after " + "+".join(sorted(set(case["chain"]))) if case["chain"] else "")
    if case["chain"]:
        return "type lost via " + "+".join(sorted(set(case["chain"])))
    return f"{case['a']} accepted where {case['b']} is needed by {case['cons']}"


def check_flow(case, ctx) -> Res:
    src = build_flow(case)
    cls = (f"mode:{case['mode']}",) + tuple(sorted({"carrier:" + c for c in case["chain"]}))
    res = judge(ctx, src, flow_sig(case), cls)
    if res.ok or not case["chain"]:
        return res
    # name the root cause: drop every carrier the violation does not need (deterministic delta-debugging), so the
    # signature lists only the carriers through which the checker loses the type
    cur = dict(case)
    changed = True
    while changed:
        changed = False
        for i in range(len(cur["chain"])):
            trial = dict(cur)
            trial["chain"] = cur["chain"][:i] + cur["chain"][i + 1:]
            r2 = judge(ctx, build_flow(trial), flow_sig(trial), cls)
            if not r2.ok:
                cur, res, changed = trial, r2, True
                break
    return res


# ---- G-core programs and single-span mutants -------------------------------------------------------------------
LIT = {"Int": ['"mut_s"', "True", "[1]"], "String": ["7", "False", "[\"x\"]"], "Bool": ["3", '"b"'], "Unit": ["1"]}


def gen_core(r):
    knobs = G.Knobs(shadowing=True, annotations="full", errors=False, max_stmts=r.choice([4, 7]),
                    max_funs=r.choice([1, 2, 3]), max_depth=r.choice([2, 3]), prints=True)
    prog, src = G.generate(r, knobs)
    mutate = r.int(0, 3) != 0
    edit = None
    if mutate:
        spans = []
        for e in G.walk_program(prog):
            if isinstance(e, G.E) and e.span and isinstance(e.type, str) and e.type in LIT:
                spans.append(("expr", e.span, e.type, e.kind))
        if spans:
            kind, span, t, ek = spans[r.int(0, len(spans) - 1)]
            edit = {"span": list(span), "text": r.choice(LIT[t]), "what": f"{t} expression ({ek}) -> literal of another type"}
    return {"src": src, "edit": edit}


def check_core(case, ctx) -> Res:
    src = case["src"]
    edit = case["edit"]
    cls = ("core:base",)
    sig = "well-typed generated program"
    if edit:
        s, e = edit["span"]
        b = src.encode("utf-8")
        src = (b[:s] + f'{{ println("{MARK}") {edit["text"]} }}'.encode() + b[e:]).decode("utf-8", "replace") \
            if False else (b[:s] + edit["text"].encode() + b[e:]).decode("utf-8", "replace")
        cls = ("core:mutant",)
        sig = "mutant: " + edit["what"]
    res = judge(ctx, src, sig, cls)
    if res.ok:
        return res
    # reduce the program line-wise (ddmin) while `check` still accepts it and the run still ends in a type error
    # of the same class, so that the report shows the construct the checker misses
    lines = src.split("\n")
    n = 2
    budget = 400
    while len(lines) >= 2 and budget > 0:
        chunk = max(1, len(lines) // n)
        reduced = False
        for i in range(0, len(lines), chunk):
            trial = lines[:i] + lines[i + chunk:]
            budget -= 1
            r2 = judge(ctx, "\n".join(trial), sig, cls)
            if not r2.ok and r2.signature == res.signature:
                lines, res, reduced = trial, r2, True
                n = max(n - 1, 2)
                break
            if budget <= 0:
                break
        if not reduced:
            if chunk == 1:
                break
            n = min(n * 2, len(lines))
    return res


def show(case):
    if "chain" in case:
        return build_flow(case).replace(DEFS, "<DEFS>\n")
    return {"edit": case["edit"], "src": case["src"][:600]}


SUBS = [
    Sub("type-flows", check_flow, gen=gen_flow, cases={"quick": 1200, "thorough": 45000}, show=show),
    Sub("core-mutants", check_core, gen=gen_core, cases={"quick": 400, "thorough": 15000}, show=show),
]
