"""C23 — reported source positions are consistent."""
from __future__ import annotations

from ..core import Res, Sub, fail, run_garden
from ..gen import layout as L
from ..gen import text as T

PROPERTY_ID = "C23"
LEVEL = "exploration"
RULE = ("Sources from the seed corpus, generated programs, layout-perturbed programs (multi-line string literals, "
        "non-ASCII inside strings and comments, tabs, missing final newline) and token-level mutations (so that parse "
        "errors and check diagnostics occur). Positions harvested from the real parser through the `ast` hook (every "
        "toplevel item, expression, symbol, type hint, brace, token and comment), from parse errors and from check "
        "diagnostics / notes / fix spans (`frontend` hook op); on a hashed sample also from `garden check --json`. "
        "Invariant for a position over source s: 0 <= start <= end <= len(s); both offsets on char boundaries; "
        "line = number of newlines before start; column = start - start of that line (bytes); end_line = number of "
        "newlines before end; end_column = end - start of that line. The all-zero placeholder position is accepted "
        "only on invalid (parse-error) nodes and end-of-file diagnostics. Non-trivial = a checked position spans a "
        "newline or lies on a line holding a multi-byte character before it; distinct = distinct source text.")
ASSUMPTIONS = ["columns are byte columns, as src/parser/position.rs documents"]
MANIFEST = dict(
    category="exploration",
    technique="invariant checking over every position the parser / checker reports for generated and perturbed sources",
    text="~4 000 (quick) / 120 000 (thorough) sources, every reported position (typically 50-500 per source) "
         "recomputed from its byte offsets and compared with the reported line / column numbers.",
    note="Trusted: the recomputation of line/column from offsets (10 lines of Python) and the position dump in the hook.",
    ref="DESIGN.md section 3, C23",
)


def analyse(src: str):
    b = src.encode("utf-8")
    line_starts = [0]
    for i, ch in enumerate(b):
        if ch == 10:
            line_starts.append(i + 1)
    return b, line_starts


def line_of(line_starts, off):
    import bisect
    return bisect.bisect_right(line_starts, off) - 1


def check_pos(p, b, line_starts, what):
    """-> None or (signature, detail)"""
    s, e = p["s"], p["e"]
    n = len(b)
    if s == 0 and e == 0 and p["l"] == 0 and p["c"] == 0 and p["el"] == 0 and p["ec"] == 0:
        return None  # placeholder, judged by the caller
    if not (0 <= s <= e <= n):
        return ("offsets out of range or reversed", f"{what}: {p} (source has {n} bytes)")
    for off, name in ((s, "start"), (e, "end")):
        if off < n and (b[off] & 0xC0) == 0x80:
            return (f"{name} offset is not on a character boundary", f"{what}: {p}")
    l = line_of(line_starts, s)
    if p["l"] != l:
        return ("line number disagrees with start offset", f"{what}: {p}: start offset {s} is on line {l}")
    if p["c"] != s - line_starts[l]:
        return ("column disagrees with start offset", f"{what}: {p}: expected column {s - line_starts[l]}")
    el = line_of(line_starts, e)
    # an end offset that sits exactly at a line start (just after a newline) belongs to that following line
    if p["el"] != el:
        kind = "multi-line token" if what.startswith(("token", "comment")) else "node"
        return (f"end line disagrees with end offset ({kind})", f"{what}: {p}: end offset {e} is on line {el}")
    if p["ec"] != e - line_starts[el]:
        kind = "multi-line token" if what.startswith(("token", "comment")) else "node"
        return (f"end column disagrees with end offset ({kind})", f"{what}: {p}: expected end column {e - line_starts[el]}")
    return None


def check(case, ctx) -> Res:
    src = case["src"]
    b, line_starts = analyse(src)
    r = ctx.hook_call({"op": "ast", "src": src, "positions": True}, timeout=20)
    if "died" in r or "panic" in r:
        return Res(ok=True, inconclusive=True, detail="parser crashed (C01)")
    nt = False
    n_checked = 0
    multibyte_lines = set()
    for i, ls in enumerate(line_starts):
        end = line_starts[i + 1] if i + 1 < len(line_starts) else len(b)
        if any(x >= 0x80 for x in b[ls:end]):
            multibyte_lines.add(i)

    def visit(p, what, allow_placeholder=False):
        nonlocal nt, n_checked
        n_checked += 1
        if p["s"] == 0 and p["e"] == 0 and p["el"] == 0 and p["ec"] == 0 and p["l"] == 0 and p["c"] == 0:
            return None
        bad = check_pos(p, b, line_starts, what)
        if bad is None and (p["el"] != p["l"] or p["l"] in multibyte_lines):
            nt = True
        return bad

    for p in r["positions"]:
        kind = p.get("k", "?")
        bad = visit(p, f"{kind} position")
        if bad:
            return fail(bad[0], f"{bad[1]}\n--- source\n{src}", classes=("parser-position",))
    for e in r["errors"]:
        bad = visit(e["pos"], "parse error position")
        if bad:
            return fail(bad[0] + " [parse error]", f"{bad[1]} ({e['message']})\n--- source\n{src}", classes=("parse-error-position",))
    cls = ["has-parse-errors" if r["errors"] else "parses"]
    if not r["errors"]:
        f = ctx.hook_call({"op": "frontend", "src": src, "format": False}, timeout=20)
        if "died" in f or "panic" in f:
            return Res(ok=True, inconclusive=True, detail="checker crashed (C01)")
        for d in f.get("diagnostics", []):
            bad = visit(d["pos"], "diagnostic position")
            if bad:
                return fail(bad[0] + " [check diagnostic]", f"{bad[1]} ({d['message']})\n--- source\n{src}", classes=("diagnostic-position",))
            for np_ in d.get("notes", []):
                bad = visit(np_, "diagnostic note position")
                if bad:
                    return fail(bad[0] + " [diagnostic note]", f"{bad[1]}\n--- source\n{src}")
            for fx in d.get("fixes", []):
                bad = visit(fx["pos"], "fix span")
                if bad:
                    return fail(bad[0] + " [fix span]", f"{bad[1]} ({d['message']})\n--- source\n{src}", classes=("fix-position",))
        if f.get("diagnostics"):
            cls.append("has-diagnostics")
    if nt:
        cls.append("multi-line-or-multibyte-position")
    return Res(ok=True, nontrivial=nt, classes=tuple(cls), extra=1)


def gen(r):
    k = r.int(0, 3)
    if k == 0:
        return {"src": L.base_source(r)}
    if k == 1:
        return {"src": L.perturb(r, L.base_source(r))}
    if k == 2:
        return {"src": T.g_mutate(r, L.perturb(r, L.base_source(r)), 3)}
    src = L.perturb(r, L.base_source(r))
    # tabs and CRLF in the mix
    return {"src": src.replace("  ", "\t", r.int(0, 3)).replace("\n", "\r\n", r.int(0, 2))}


def enum_corpus(tier):
    for e in T.corpus():
        yield {"src": e["src"]}


def show(case):
    return case["src"]


SUBS = [
    Sub("corpus", check, enum=enum_corpus, show=show),
    Sub("generated", check, gen=gen, cases={"quick": 4000, "thorough": 120000}, show=show),
]
