"""C15 — inferred types of lists and branches cover every element."""
from __future__ import annotations

from ..core import Res, Sub, fail
from ..model import types as TY

PROPERTY_ID = "C15"
LEVEL = "exploration"
EXHAUSTIVE = True
RULE = ("Exhaustive: unify(a, b) for all ordered pairs of the depth-1 type universe (~260 types, 67 600 pairs) through "
        "the guarded hook, and unify_all on [a, a, a] for every a; random: unify_all on lists of 1..5 depth-2/3 types "
        "biased towards unifiable ones (a type, narrowed variants of it with NoValue holes, occasionally an unrelated "
        "type). Oracle: a result j of unify(a, b) satisfies a <: j and b <: j in BOTH the implementation's relation "
        "and the reference relation; unify(a, a) = a; unify_all of equal types returns that type; unify(a, b) and "
        "unify(b, a) are both absent or mutually subtypes; a unify_all result is a supertype of every element. "
        "Non-trivial = a != b and a result exists; distinct = distinct pair / list.")
ASSUMPTIONS = ["'by proof' is not delivered: exhaustive over the depth-1 universe, sampled beyond",
               "the checker combines element / branch / arm types through unify and unify_all (type_checker.rs)"]
MANIFEST = dict(
    category="exploration",
    technique="exhaustive bounded enumeration of type pairs + random type lists; oracle = the result is an upper "
              "bound in an independent reference subtype relation",
    text="All 67 600 ordered pairs of a 260-type universe and ~600 (quick) random lists are unified by the real "
         "checker functions; every result must be a supertype of each input.",
    note="Trusted: the reference subtype relation (gv/model/types.py) and the hook's Type conversion.",
    ref="DESIGN.md section 3, C15",
)


def call(ctx, req):
    r = ctx.hook_call(req, timeout=300)
    if "died" in r or "panic" in r:
        return None, str(r)[:300]
    return r, None


def check_pairs(case, ctx) -> Res:
    types = TY.universe1()
    n = len(types)
    lo, hi = case["rows"]
    pairs = [[i, j] for i in range(lo, min(hi, n)) for j in range(n)]
    tj = [TY.to_json(t) for t in types]
    r, err = call(ctx, {"op": "types", "types": tj, "unify": pairs,
                        "unify_all": [[i, i, i] for i in range(lo, min(hi, n))]})
    if r is None:
        return fail("unify crashed", err)
    res = [TY.from_json(x) for x in r["unify"]]
    # second round: ask the implementation whether each input is a subtype of the result
    extra, idx = [], {}
    q = []
    for (i, j), u in zip(pairs, res):
        if u is None:
            continue
        if u not in idx:
            idx[u] = n + len(extra)
            extra.append(u)
        q += [[i, idx[u]], [j, idx[u]]]
    r2, err = call(ctx, {"op": "types", "types": tj + [TY.to_json(t) for t in extra], "subtype": q})
    if r2 is None:
        return fail("is_subtype crashed", err)
    sub = r2["subtype"]
    k = 0
    nt = 0
    table = {}
    for (i, j), u in zip(pairs, res):
        table[(i, j)] = u
        a, b = types[i], types[j]
        if u is None:
            if a == b:
                return fail("unify(a, a) is absent", TY.show(a))
            continue
        ia, ib = sub[k], sub[k + 1]
        k += 2
        if u == ("Error",):
            return fail("unify returned an error type for well-formed inputs", f"{TY.show(a)} , {TY.show(b)}")
        if a == b and u != a:
            return fail("unify(a, a) != a", f"unify({TY.show(a)}, {TY.show(a)}) = {TY.show(u)}")
        for x, ok_impl, nm in ((a, ia, "first"), (b, ib, "second")):
            if not TY.subtype(x, u) or not ok_impl:
                who = "reference relation" if not TY.subtype(x, u) else "implementation's own is_subtype"
                return fail("unify result is not a supertype of an input",
                            f"unify({TY.show(a)}, {TY.show(b)}) = {TY.show(u)}; the {nm} input is not a subtype of it "
                            f"({who})")
        if a != b:
            nt += 1
    for i in range(lo, min(hi, n)):
        u = TY.from_json(r["unify_all"][i - lo])
        if u != types[i]:
            return fail("unify_all of equal types does not return that type",
                        f"unify_all([a, a, a]) with a = {TY.show(types[i])} gave {TY.show(u) if u else None}")
    # symmetry within this block of rows (both orders present when j is also in [lo, hi))
    for (i, j), u in table.items():
        if (j, i) in table and i < j:
            v = table[(j, i)]
            if (u is None) != (v is None):
                return fail("unify depends on argument order", f"{TY.show(types[i])} , {TY.show(types[j])}: "
                                                               f"{TY.show(u) if u else None} vs {TY.show(v) if v else None}")
            if u is not None and not (TY.subtype(u, v) and TY.subtype(v, u)):
                return fail("unify depends on argument order", f"{TY.show(types[i])} , {TY.show(types[j])}: "
                                                               f"{TY.show(u)} vs {TY.show(v)}")
    return Res(ok=True, nontrivial=nt > 0, classes=("pairs-block",), extra=len(pairs))


def enum_blocks(tier):
    n = len(TY.universe1())
    step = 20
    for lo in range(0, n, step):
        yield {"rows": [lo, lo + step]}


def gen_lists(r):
    lists = []
    for _ in range(r.int(3, 12)):
        a = TY.gen_type(r, r.int(1, 3))
        items = [a]
        for _ in range(r.int(0, 4)):
            c = r.int(0, 5)
            if c <= 2:
                items.append(TY.narrow(r, a))
            elif c == 3:
                items.append(TY.NOVALUE)
            elif c == 4:
                items.append(a)
            else:
                items.append(TY.gen_type(r, 2))
        items = r.sample(items, len(items))
        lists.append([TY.to_json(t) for t in items])
    return {"lists": lists}


def check_lists(case, ctx) -> Res:
    table, idx_lists = [], []
    for l in case["lists"]:
        base = len(table)
        table += l
        idx_lists.append(list(range(base, base + len(l))))
    r, err = call(ctx, {"op": "types", "types": table, "unify_all": idx_lists})
    if r is None:
        return fail("unify_all crashed", err)
    nt = 0
    for l, u in zip(case["lists"], r["unify_all"]):
        ts = [TY.from_json(x) for x in l]
        if u is None:
            continue
        j = TY.from_json(u)
        for t in ts:
            if not TY.subtype(t, j):
                return fail("unify_all result is not a supertype of an element",
                            f"unify_all([{', '.join(TY.show(x) for x in ts)}]) = {TY.show(j)}; {TY.show(t)} is not a subtype")
        if len(set(ts)) > 1:
            nt += 1
    return Res(ok=True, nontrivial=nt > 0, classes=("lists",), extra=len(case["lists"]))


def show(case):
    if "rows" in case:
        return f"rows {case['rows']} of the depth-1 universe x all columns"
    return [[TY.show(TY.from_json(x)) for x in l] for l in case["lists"][:3]]


SUBS = [
    Sub("all-pairs", check_pairs, enum=enum_blocks, show=show),
    Sub("random-lists", check_lists, gen=gen_lists, cases={"quick": 600, "thorough": 30000}, show=show),
]
