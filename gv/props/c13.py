"""C13 — `==` is structural equality on values."""
from __future__ import annotations

from ..core import Res, Sub, fail
from ..evalbatch import eval_cases
from ..gen import values as V

PROPERTY_ID = "C13"
LEVEL = "exploration"
RULE = ("Pairs and triples of type-directed random literal-syntax values of the SAME type, each operand built by a "
        "separate source expression (never a shared variable); 50% of pairs are structurally equal by independent "
        "re-construction, the others are random or single-point mutations of the first value. Oracle: `a == b` is "
        "True iff the model's structural equality holds (floats by printed form, signed zeros included in one case of eight; dicts as "
        "key->value maps), `a != b` is its negation, `b == a` agrees, `a == a` through one variable is True, and "
        "equality is transitive on equal triples. Non-trivial = an equal-by-construction pair containing a float, a "
        "dict, a struct/enum value or nesting depth >= 2; distinct = distinct pair.")
ASSUMPTIONS = ["model equality = equality of canonical forms in gv/gen/values.py"]
MANIFEST = dict(
    category="exploration",
    technique="model-based property testing of algebraic laws (reflexive/symmetric/transitive, agreement with "
              "structural equality) over independently constructed random values",
    text="~5 000 (quick) / 150 000 (thorough) generated pairs/triples evaluated by the real interpreter and compared "
         "with structural equality computed by the harness.",
    note="Trusted: the canonical-form equality in gv/gen/values.py and the source writer.",
    ref="DESIGN.md section 3, C13",
)


def mutate(r, v):
    """A value of the same type that differs from v in one place (usually)."""
    k = v[0]
    if k == "Int":
        return ("Int", v[1] + 1 if v[1] < V.MAX else v[1] - 1)
    if k == "Float":
        x = V.gen_float(r)
        return ("Float", x if x != 0.0 or True else 1.0)
    if k == "Str":
        return ("Str", v[1] + r.choice(["a", " ", "\\\\", "é"]) if r.bool() else v[1][:-1] if v[1] else "x")
    if k == "Bool":
        return ("Bool", not v[1])
    if k in ("List", "Tuple") and v[1]:
        i = r.int(0, len(v[1]) - 1)
        items = list(v[1])
        if k == "List" and r.int(0, 3) == 0:
            del items[i]
        else:
            items[i] = mutate(r, items[i])
        return (k, items)
    if k == "Dict" and v[1]:
        items = list(v[1])
        i = r.int(0, len(items) - 1)
        c = r.int(0, 2)
        if c == 0:
            del items[i]
        elif c == 1:
            items[i] = (items[i][0], mutate(r, items[i][1]))
        else:
            items[i] = (items[i][0] + "k", items[i][1])
        return ("Dict", items)
    if k in ("Some", "Ok", "Err"):
        return (k, mutate(r, v[1]))
    if k == "Struct":
        fs = list(v[2])
        i = r.int(0, len(fs) - 1)
        fs[i] = (fs[i][0], mutate(r, fs[i][1]))
        return ("Struct", v[1], fs)
    if k == "Variant" and v[2] is not None:
        return ("Variant", v[1], mutate(r, v[2]))
    return v


def no_negzero(v):
    import math
    k = v[0]
    if k == "Float":
        return ("Float", 0.0) if v[1] == 0.0 else v
    if k in ("List", "Tuple"):
        return (k, [no_negzero(x) for x in v[1]])
    if k == "Dict":
        return (k, [(kk, no_negzero(x)) for kk, x in v[1]])
    if k in ("Some", "Ok", "Err"):
        return (k, no_negzero(v[1]))
    if k == "Struct":
        return (k, v[1], [(f, no_negzero(x)) for f, x in v[2]])
    if k == "Variant" and v[2] is not None:
        return (k, v[1], no_negzero(v[2]))
    return v


def set_first_float(v, x):
    """-> (value with its first Float replaced by x, replaced?)"""
    k = v[0]
    if k == "Float":
        return ("Float", x), True
    if k in ("List", "Tuple"):
        items = list(v[1])
        for i, it in enumerate(items):
            n, done = set_first_float(it, x)
            if done:
                items[i] = n
                return (k, items), True
        return v, False
    if k == "Dict":
        items = list(v[1])
        for i, (kk, it) in enumerate(items):
            n, done = set_first_float(it, x)
            if done:
                items[i] = (kk, n)
                return (k, items), True
        return v, False
    if k in ("Some", "Ok", "Err"):
        n, done = set_first_float(v[1], x)
        return ((k, n), True) if done else (v, False)
    if k == "Struct":
        fs = list(v[2])
        for i, (f, it) in enumerate(fs):
            n, done = set_first_float(it, x)
            if done:
                fs[i] = (f, n)
                return (k, v[1], fs), True
        return v, False
    if k == "Variant" and v[2] is not None:
        n, done = set_first_float(v[2], x)
        return ((k, v[1], n), True) if done else (v, False)
    return v, False


def shuffle_dicts(r, v):
    """Independent re-construction: same value, dict entries written in another order."""
    k = v[0]
    if k in ("List", "Tuple"):
        return (k, [shuffle_dicts(r, x) for x in v[1]])
    if k == "Dict":
        items = [(kk, shuffle_dicts(r, x)) for kk, x in v[1]]
        return ("Dict", r.sample(items, len(items)))
    if k in ("Some", "Ok", "Err"):
        return (k, shuffle_dicts(r, v[1]))
    if k == "Struct":
        return (k, v[1], [(f, shuffle_dicts(r, x)) for f, x in v[2]])
    if k == "Variant" and v[2] is not None:
        return (k, v[1], shuffle_dicts(r, v[2]))
    return v


def gen(r):
    groups = []
    for _ in range(r.int(1, 8)):
        t = V.gen_type(r, r.int(0, 3))
        a = no_negzero(V.gen_value(r, t))
        c = r.int(0, 3)
        if c <= 1:
            b = shuffle_dicts(r, a)
        elif c == 2:
            b = no_negzero(mutate(r, a))
        else:
            b = no_negzero(V.gen_value(r, t))
        third = shuffle_dicts(r, b) if r.bool(0.5) else no_negzero(mutate(r, b))
        if r.int(0, 7) == 0:
            # signed zeros: the same value except that one side has 0.0 where the other has -0.0 (printed forms differ)
            a0, ok_a = set_first_float(a, 0.0)
            b0, ok_b = set_first_float(a, -0.0)
            if ok_a and ok_b:
                a, b = a0, b0
                third = shuffle_dicts(r, b)
        groups.append([V.to_json(a), V.to_json(b), V.to_json(third)])
    return {"groups": groups}


def b2s(b):
    return "True" if b else "False"


def check(case, ctx) -> Res:
    snippets, expects, descs = [], [], []
    nt = 0
    classes = set()
    for g in case["groups"]:
        a, b, c = (V.from_json(x) for x in g)
        sa, sb, sc = V.src(a), V.src(b), V.src(c)
        ab = V.canon(a) == V.canon(b)
        bc = V.canon(b) == V.canon(c)
        ac = V.canon(a) == V.canon(c)
        snippets.append(
            f"println(string_repr({sa} == {sb}))\nprintln(string_repr({sa} != {sb}))\n"
            f"println(string_repr({sb} == {sa}))\nprintln(string_repr({sb} == {sc}))\n"
            f"println(string_repr({sa} == {sc}))\n"
            f"let refl_{len(snippets)} = {sa}\nprintln(string_repr(refl_{len(snippets)} == refl_{len(snippets)}))")
        expects.append([b2s(ab), b2s(not ab), b2s(ab), b2s(bc), b2s(ac), "True"])
        descs.append((sa, sb, sc))
        fs = V.features(a)
        if ab and fs & {"Float", "Dict", "Struct", "Variant", "depth>=2"}:
            nt += 1
        classes |= {f"has:{f}" for f in fs}
        classes.add("pair:equal" if ab else "pair:different")
    outs = eval_cases(ctx, snippets, prelude=V.PRELUDE)
    labels = ["a == b", "a != b", "b == a", "b == c", "a == c", "x == x (one variable)"]
    for (sa, sb, sc), exp, o, g in zip(descs, expects, outs, case["groups"]):
        if o is None or o.kind == "timeout":
            return Res(ok=True, inconclusive=True, detail="no outcome")
        if o.kind == "crash":
            return fail(o.msg, f"comparing {sa} with {sb} crashed: {o.msg}")
        if o.kind != "ok":
            return fail("comparison raised an error", f"a = {sa}\nb = {sb}\nc = {sc}\n{o.kind}: {o.msg[:300]}")
        got = o.out.split("\n")[:6]
        for lab, e, gval in zip(labels, exp, got):
            if e != gval:
                a = V.from_json(g[0])
                kinds = V.features(a) & {"Float", "Dict"}
                sig = f"`==` disagrees with structural equality ({'/'.join(sorted(kinds)) or a[0]})"
                va, vb, vc = (V.from_json(x) for x in g)
                x, y = {"a == b": (va, vb), "a != b": (va, vb), "b == a": (vb, va), "b == c": (vb, vc),
                        "a == c": (va, vc)}.get(lab, (va, va))
                if V.canon(no_negzero(x)) == V.canon(no_negzero(y)) and V.canon(x) != V.canon(y):
                    sig = "`-0.0 == 0.0` is True although the printed forms differ"
                return fail(sig, f"{lab}: expected {e}, got {gval}\na = {sa}\nb = {sb}\nc = {sc}")
    return Res(ok=True, nontrivial=nt > 0, classes=tuple(sorted(classes)), extra=len(snippets))


def show(case):
    return [[V.src(V.from_json(x)) for x in g[:2]] for g in case["groups"][:3]]


SUBS = [Sub("equality-laws", check, gen=gen, cases={"quick": 700, "thorough": 20000}, show=show)]
