"""C01 — the front end (lex, parse, check, format) never crashes on any source text."""
from __future__ import annotations

import re
import zlib

from ..core import Res, Sub, fail, run_garden, hook_panic_signature
from ..gen import text as T

PROPERTY_ID = "C01"
LEVEL = "exploration"
RULE = ("Random Unicode text, token soup, token-level mutations of the repository's test programs, bounded and deep "
        "nesting; each input goes through lex+parse+check+format in the hook worker (catch_unwind) and a hashed 4% "
        "sample plus every failing case through the CLI (check, format, reftest-ast). Non-trivial = input with >= 3 "
        "rough tokens and (a non-ASCII scalar outside strings/comments, or >= 1 parse error). Distinct = distinct "
        "input text.")
MANIFEST = dict(
    category="exploration",
    technique="property-based fuzzing (Hypothesis): random Unicode / token soup / corpus mutation against a no-crash oracle",
    text="Generated-input search: ~19k (quick) / ~450k (thorough) source texts per run through lex+parse+check+format; "
         "any panic, abort, signal or hang is a violation after confirmation through the plain CLI. Absence of crashes "
         "is not established, only not found in the explored population.",
    note="Trusts the hook wrapper only for speed (every reported failure is reproduced with `garden check/format/"
         "reftest-ast`); one recorded known finding (unbounded recursion on >= ~1000 nesting levels).",
    ref="DESIGN.md section 3, C01",
)
ASSUMPTIONS = ["invalid UTF-8 is rejected by the CLI before lexing and is outside the domain",
               "the hook's `frontend` op calls the same functions as `garden check`/`garden format`; every failure is "
               "re-confirmed through the plain CLI before it is reported"]


def max_nesting(src: str) -> int:
    d = m = 0
    for ch in src:
        if ch in "([{":
            d += 1
            m = max(m, d)
        elif ch in ")]}":
            d = max(0, d - 1)
    # chains like `1 + 1 + 1` and `x.f().f()` also recurse
    m = max(m, src.count(" + "), src.count(".f()"), src.count("<"))
    return m


def classify(src: str, reply: dict):
    toks = [t for t in T.tokenize_rough(src) if not t.isspace()]
    nonascii_code = any((not t.startswith('"')) and (not t.startswith("//")) and any(ord(c) > 127 for c in t)
                        for t in toks)
    perr = bool(reply.get("parse_errors"))
    classes = []
    if nonascii_code:
        classes.append("nonascii-in-code")
    if any(ord(c) > 127 for c in src):
        classes.append("nonascii-any")
    if perr:
        classes.append("parse-error")
    else:
        classes.append("parses")
    if reply.get("diagnostics"):
        classes.append("check-diagnostics")
    nt = len(toks) >= 3 and (nonascii_code or perr)
    return nt, classes


def cli_confirm(src: str, ctx):
    """Run the plain CLI on the text. Returns a crash signature or None."""
    path = ctx.scratch.file(src)
    for args in (["check", path], ["format", path], ["reftest-ast", path], ["check", "--json", path]):
        r = run_garden(args, cwd=ctx.scratch.root, timeout=20)
        if r.timed_out:
            # a loaded machine can stretch a 10 ms run a long way: only a run that also exceeds 150 s is a hang
            r = run_garden(args, cwd=ctx.scratch.root, timeout=150)
            if r.timed_out:
                return "timeout", f"`garden {args[0]}` did not finish in 150 s (a front-end run takes ~10 ms)"
        if r.crashed or r.rc not in (0, 1):
            return r.crash_sig(), f"`garden {' '.join(args[:-1])}` rc={r.rc}\n{r.err[-600:]}"
    return None


def check(case, ctx) -> Res:
    src = case["src"]
    reply = ctx.hook_call({"op": "frontend", "src": src}, timeout=5)
    sig = None
    if "died" in reply:
        if reply.get("timeout"):
            # termination of the front end is part of "finishes"; confirm with the CLI at 10x budget
            c = cli_confirm(src, ctx)
            if c is None:
                return Res(ok=True, inconclusive=True, detail="hook timeout not reproduced by CLI")
            sig = c[0]
        else:
            sig = reply["died"]
    elif "panic" in reply:
        sig = hook_panic_signature(reply["panic"])
    if sig is not None:
        c = cli_confirm(src, ctx)
        if c is None:
            return Res(ok=True, inconclusive=True,
                       detail=f"hook reported {sig} but the CLI did not crash on the same text")
        csig, cdetail = c
        if csig == "stack-overflow":
            csig = "stack-overflow:nesting>=600" if max_nesting(src) >= 600 else "stack-overflow:shallow"
        return fail(csig, f"front end crashed on {src[:300]!r}\n{cdetail}", classes=("crash",))
    nt, classes = classify(src, reply)
    # CLI channel on a deterministic sample
    if (zlib.crc32(src.encode("utf-8", "replace")) & 0xFF) < 10 or ctx.strict:
        c = cli_confirm(src, ctx)
        classes.append("cli-sampled")
        if c is not None:
            csig, cdetail = c
            if csig == "stack-overflow":
                csig = "stack-overflow:nesting>=600" if max_nesting(src) >= 600 else "stack-overflow:shallow"
            return fail(csig, f"CLI crashed on {src[:300]!r}\n{cdetail}", classes=("crash",))
    return Res(ok=True, nontrivial=nt, classes=tuple(classes))


def gen_text(r):
    return {"src": T.g_text(r, 80)}


def gen_tokens(r):
    return {"src": T.g_tokens(r, 40)}


def gen_mutate(r):
    base = r.choice(T.corpus())["src"]
    return {"src": T.g_mutate(r, base)}


def gen_nest(r):
    return {"src": T.g_nest(r)}


def enum_corpus(tier):
    for e in T.corpus():
        yield {"src": e["src"]}
    # hand-picked regression inputs
    for s in ["", "\n", "é", "let x = 1 ", "﻿1", "#!shebang", "#!shebang\né", '"', '"\\', "//", "// é",
              "let é = 1", "x.é", "fun f(é: Int) {}", "1   2", "\"a b\"　", "(", ")", "{", "}", "[",
              "let", "fun", "fun f(", "match x {", "if", "else", "x.", "x::", "Foo{", "1 +", "-", "--1", "1.", ".5"]:
        yield {"src": s}


def enum_prefixes(tier):
    """Every token-boundary prefix of every seed program (truncated input is what an editor buffer
    looks like while typing); quick takes programs up to 400 bytes, thorough all."""
    seen = set()
    for e in T.corpus():
        src = e["src"]
        if tier == "quick" and len(src) > 400:
            continue
        toks = T.tokenize_rough(src)
        acc = ""
        for t in toks:
            acc += t
            if t.isspace():
                continue
            if acc not in seen:
                seen.add(acc)
                yield {"src": acc}
                if not acc.endswith(" "):
                    yield {"src": acc + " "}


def enum_deep(tier):
    ns = [1000, 5000] if tier == "quick" else [1000, 5000, 20000, 100000]
    for n in ns:
        yield {"src": "(" * n + "1" + ")" * n}
        yield {"src": "[" * n + "]" * n}
        yield {"src": "if x { " * n + "}" * n}
        yield {"src": "fun() { " * n + "}" * n}


def show(case):
    return case["src"]


SUBS = [
    Sub("corpus", check, enum=enum_corpus, show=show),
    Sub("prefixes", check, enum=enum_prefixes, show=show),
    Sub("text", check, gen=gen_text, cases={"quick": 6000, "thorough": 150000}, show=show),
    Sub("tokens", check, gen=gen_tokens, cases={"quick": 6000, "thorough": 150000}, show=show),
    Sub("mutate", check, gen=gen_mutate, cases={"quick": 6000, "thorough": 150000}, show=show),
    Sub("nest", check, gen=gen_nest, cases={"quick": 300, "thorough": 3000}, show=show),
    Sub("deepnest", check, enum=enum_deep, show=lambda c: c["src"][:40] + f"... ({len(c['src'])} chars)", shards=8),
]
