"""C34 — only public definitions are visible through imports."""
from __future__ import annotations

import json
import os

from ..core import Res, Sub, fail, run_garden

PROPERTY_ID = "C34"
LEVEL = "exploration"
RULE = ("Generated projects of 1..3 files in a scratch directory: each file defines public and private functions "
        "(each returns its own name; some public ones call a private one of the same file), imports a random subset "
        "of the other files with or without `as`, including cycles (A<->B, A->B->C->A) and self-imports. A main file "
        "exercises uses whose legality is known by construction: qualified `ns::f` and unqualified `f` of public and "
        "of private functions of directly imported files. Oracle: all legal uses together -> `garden check --json` "
        "reports no error and `garden run` prints every callee's name; each illegal use alone -> `check` reports an "
        "error AND `run` ends with a Garden error without printing the callee's name; every command terminates. "
        "Re-export attempts (asking for a function that the imported file itself only imported) are run and counted "
        "but not asserted (the documentation scopes `public` to a file's own definitions). Non-trivial = >= 2 files, "
        ">= 1 private function and >= 1 import edge on a cycle; distinct = distinct project.")
ASSUMPTIONS = ["`public` is documented for functions and methods; enums / structs are not generated"]
MANIFEST = dict(
    category="exploration",
    technique="model-based property testing over generated multi-file projects (legality of every use known by "
              "construction), check-time and run-time oracles",
    text="~250 (quick) / 8 000 (thorough) generated projects, each checked and run through the real CLI; legal uses "
         "must work, illegal ones must be rejected both by `check` and at run time, and cyclic imports must terminate.",
    note="Trusted: the project generator's legality bookkeeping.",
    ref="DESIGN.md section 3, C34",
)


def gen(r):
    k = r.int(1, 3)
    files = []
    for i in range(k):
        funs = []
        for j in range(r.int(1, 3)):
            funs.append({"name": f"fn_{i}_{j}", "public": r.bool(0.55)})
        files.append({"name": f"mod{i}.gdn", "funs": funs, "imports": []})
    for i in range(k):
        for t in range(k):
            if r.bool(0.6 if t != i else 0.15):
                files[i]["imports"].append({"target": t, "alias": (f"ns{t}" if r.bool(0.6) else None)})
    # the main file imports every module once, each either qualified or unqualified
    main_imports = [{"target": t, "alias": (f"m{t}" if r.bool(0.5) else None)} for t in range(k)]
    return {"files": files, "main_imports": main_imports, "order": r.sample(list(range(k)), k)}


def render_module(f, files):
    out = []
    privs = [g["name"] for g in f["funs"] if not g["public"]]
    for g in f["funs"]:
        vis = "public " if g["public"] else ""
        body = f'"{g["name"]}"'
        if g["public"] and privs:
            body = f'{privs[0]}() ^ "<-{g["name"]}"' if g["name"].endswith("_0") else body
        out.append(f"{vis}fun {g['name']}(): String {{ {body} }}")
    for im in f["imports"]:
        t = files[im["target"]]["name"]
        out.append(f'import "./{t}"' + (f' as {im["alias"]}' if im["alias"] else ""))
    return "\n".join(out) + "\n"


def expected_output(g, f):
    privs = [x["name"] for x in f["funs"] if not x["public"]]
    if g["public"] and privs and g["name"].endswith("_0"):
        return f'{privs[0]}<-{g["name"]}'
    return g["name"]


def write_project(ctx, case, main_src):
    d = ctx.scratch.dir()
    for f in case["files"]:
        with open(os.path.join(d, f["name"]), "w") as fh:
            fh.write(render_module(f, case["files"]))
    with open(os.path.join(d, "main.gdn"), "w") as fh:
        fh.write(main_src)
    return d


def errors_of(check_run):
    errs = []
    for line in check_run.out.splitlines():
        line = line.strip()
        if not line.startswith("{"):
            continue
        try:
            dct = json.loads(line)
        except json.JSONDecodeError:
            continue
        if dct.get("severity") == "error":
            errs.append(dct.get("message", ""))
    return errs


def check(case, ctx) -> Res:
    files = case["files"]
    header = ""
    for im in case["main_imports"]:
        header += f'import "./{files[im["target"]]["name"]}"' + (f' as {im["alias"]}' if im["alias"] else "") + "\n"
    legal, illegal = [], []
    for im in case["main_imports"]:
        f = files[im["target"]]
        for g in f["funs"]:
            expr = f'{im["alias"]}::{g["name"]}()' if im["alias"] else f'{g["name"]}()'
            (legal if g["public"] else illegal).append((expr, g, f))
    cyc = any(im["target"] != i and any(b["target"] == i for b in files[im["target"]]["imports"])
              for i, f in enumerate(files) for im in f["imports"]) or any(im["target"] == i for i, f in enumerate(files) for im in f["imports"])
    cls = [f"files:{len(files)}", "cycle" if cyc else "acyclic"]
    # all legal uses together
    main_src = header + "".join(f"println({e})\n" for e, _, _ in legal)
    d = write_project(ctx, case, main_src)
    desc = "\n".join(f"--- {f['name']}\n{render_module(f, files)}" for f in files)
    c = run_garden(["check", "--json", "main.gdn"], cwd=d, timeout=30)
    r = run_garden(["run", "main.gdn"], cwd=d, timeout=30)
    for name, x in (("check", c), ("run", r)):
        if x.timed_out:
            return fail(f"`garden {name}` does not terminate on the project" + (" (cyclic imports)" if cyc else ""),
                        f"{desc}--- main.gdn\n{main_src}", classes=cls)
        if x.crashed:
            return fail(f"`garden {name}` crashed: " + x.crash_sig(), f"{x.err[-300:]}\n{desc}--- main.gdn\n{main_src}", classes=cls)
    errs = errors_of(c)
    if errs:
        return fail("check reports an error for a legal use of a public function", f"{errs[:2]}\n{desc}--- main.gdn\n{main_src}", classes=cls)
    exp = "".join(expected_output(g, f) + "\n" for _, g, f in legal)
    if r.out != exp or "Exception" in r.err:
        return fail("a legal use of a public function fails or prints something else at run time",
                    f"expected\n{exp}got\n{r.out}{r.err[:300]}\n{desc}--- main.gdn\n{main_src}", classes=cls)
    # each illegal use alone
    for e, g, f in illegal:
        src = header + f"println({e})\n"
        d2 = write_project(ctx, case, src)
        c2 = run_garden(["check", "--json", "main.gdn"], cwd=d2, timeout=30)
        r2 = run_garden(["run", "main.gdn"], cwd=d2, timeout=30)
        if c2.timed_out or r2.timed_out:
            return fail("command does not terminate on the project", f"{desc}--- main.gdn\n{src}", classes=cls)
        if c2.crashed or r2.crashed:
            return fail("command crashed: " + (c2.crash_sig() if c2.crashed else r2.crash_sig()), f"{desc}--- main.gdn\n{src}", classes=cls)
        how = "qualified" if "::" in e else "unqualified"
        if not errors_of(c2):
            return fail(f"check accepts a {how} use of a private function", f"`{e}`\n{desc}--- main.gdn\n{src}", classes=cls)
        if g["name"] in r2.out or "Exception" not in r2.err:
            return fail(f"a {how} use of a private function works at run time",
                        f"`{e}` printed {r2.out!r}\n{r2.err[:200]}\n{desc}--- main.gdn\n{src}", classes=cls)
    # re-export attempts: counted, not asserted
    reexp = 0
    for im in case["main_imports"]:
        if not im["alias"]:
            continue
        for inner in files[im["target"]]["imports"]:
            if inner["target"] == im["target"]:
                continue
            for g in files[inner["target"]]["funs"]:
                if g["public"]:
                    reexp += 1
    if reexp:
        cls.append("has-re-export-opportunity")
    nt = len(files) >= 2 and bool(illegal) and cyc
    return Res(ok=True, nontrivial=nt, classes=tuple(cls), extra=2 + 2 * len(illegal))


def show(case):
    return "\n".join(f"--- {f['name']}\n{render_module(f, case['files'])}" for f in case["files"]) + \
        "--- main imports: " + json.dumps(case["main_imports"])


SUBS = [Sub("projects", check, gen=gen, cases={"quick": 250, "thorough": 8000}, show=show)]
