"""C34 — only public definitions are visible through imports."""
from __future__ import annotations

import json
import os

from ..core import Res, Sub, fail, run_garden

PROPERTY_ID = "C34"
LEVEL = "exploration"
RULE = ("Generated projects of 1..3 files in a scratch directory: each file defines public and private functions "
        "(each returns its own name, optionally appended to the result of a lower-numbered function it calls: an own "
        "function, or a public function of a file it imports - through the alias, unqualified, or through an aliased "
        "self-import), imports a random subset of the files with or without `as`, written before or after the "
        "definitions, including cycles (A<->B, A->B->C->A) and self-imports. A main file "
        "exercises uses whose legality is known by construction: qualified `ns::f` and unqualified `f` of public and "
        "of private functions of directly imported files; half of the files also define a public or private enum whose "
        "variants (with and without payload) are used the same two ways. Oracle: all legal uses together -> `garden check --json` "
        "reports no error and `garden run` prints every callee's name; each illegal use alone -> `check` reports an "
        "error AND `run` ends with a Garden error without printing the callee's name; every command terminates. "
        "Re-export attempts (asking for a function that the imported file itself only imported) are run and counted "
        "but not asserted (the documentation scopes `public` to a file's own definitions). Non-trivial = >= 2 files, "
        ">= 1 private function and >= 1 import edge on a cycle; distinct = distinct project.")
ASSUMPTIONS = ["`public` is documented for functions and methods; an enum's variants are values of its file and are "
               "taken to be as visible as the enum is marked; type NAMES (struct / enum names in hints and struct "
               "literals) are global in Garden by design - the prelude's own types carry no `public` - so their "
               "visibility is not asserted and structs are not generated"]
MANIFEST = dict(
    category="exploration",
    technique="model-based property testing over generated multi-file projects (legality of every use known by "
              "construction), check-time and run-time oracles",
    text="~250 (quick) / 8 000 (thorough) generated projects, each checked and run through the real CLI; legal uses "
         "must work, illegal ones must be rejected both by `check` and at run time, and cyclic imports must terminate.",
    note="Trusted: the project generator's legality bookkeeping.",
    ref="DESIGN.md section 3, C34",
)


def gen(r):
    k = r.int(1, 3)
    files = []
    for i in range(k):
        funs = []
        for j in range(r.int(1, 4)):
            funs.append({"name": f"fn_{i}_{j}", "public": r.bool(0.55), "call": None})
        files.append({"name": f"mod{i}.gdn", "funs": funs, "imports": [], "imports_first": r.bool()})
        if r.bool(0.5):
            # an enum whose variants are values of the file: as visible as the enum is
            files[i]["enum"] = {"name": f"En{i}", "public": r.bool(0.6), "variants": [f"Va{i}", f"Vb{i}"],
                                "first": r.bool()}
    for i in range(k):
        for t in range(k):
            if r.bool(0.6 if t != i else 0.25):
                files[i]["imports"].append({"target": t, "alias": (f"ns{t}" if r.bool(0.6) else None)})
    # calls between modules: a function may call a lower-numbered function (so calls never cycle although imports
    # do) - an own function directly, or a public function of a file it imports, through the alias or unqualified.
    # A self-import with an alias gives `nsI::fn` inside modI itself.
    for i, f in enumerate(files):
        for j, g in enumerate(f["funs"]):
            if j == 0 or not r.bool(0.6):
                continue
            opts = [{"via": "own", "target": i, "fun": jj} for jj in range(j)]
            for im in f["imports"]:
                for jj, h in enumerate(files[im["target"]]["funs"]):
                    if jj < j and h["public"]:
                        opts.append({"via": im["alias"] or "unqualified", "target": im["target"], "fun": jj})
            imported = [o for o in opts if o["via"] != "own"]
            g["call"] = r.choice(imported) if imported and r.bool(0.75) else r.choice(opts)
    # the main file imports every module once, each either qualified or unqualified
    main_imports = [{"target": t, "alias": (f"m{t}" if r.bool(0.5) else None)} for t in range(k)]
    return {"files": files, "main_imports": main_imports, "order": r.sample(list(range(k)), k)}


def gen_cycle_chain(r):
    """2..3 files on an import cycle and a chain of public functions that follows the cycle (file i's function of rank j
    calls file i+1's function of rank j-1), so that a definition of every file is needed while another file of the
    cycle is still being loaded"""
    k = r.int(2, 3)
    depth = r.int(2, 4)
    files = []
    for i in range(k):
        funs = [{"name": f"fn_{i}_{j}", "public": True, "call": None} for j in range(depth)]
        if r.bool():
            funs.append({"name": f"fn_{i}_{depth}", "public": False, "call": None})
        files.append({"name": f"mod{i}.gdn", "funs": funs, "imports": [], "imports_first": r.bool()})
    for i in range(k):
        t = (i + 1) % k
        files[i]["imports"].append({"target": t, "alias": (f"ns{t}" if r.bool(0.4) else None)})
        if k == 3 and r.bool(0.3):
            t2 = (i + 2) % k
            files[i]["imports"].append({"target": t2, "alias": (f"ns{t2}" if r.bool(0.5) else None)})
    for i, f in enumerate(files):
        im = f["imports"][0]
        for j in range(1, depth):
            f["funs"][j]["call"] = {"via": im["alias"] or "unqualified", "target": im["target"], "fun": j - 1}
    t = r.int(0, k - 1)
    main_imports = [{"target": t, "alias": (f"m{t}" if r.bool(0.5) else None)}]
    if r.bool(0.4):
        t2 = (t + 1) % k
        main_imports.append({"target": t2, "alias": (f"m{t2}" if r.bool(0.5) else None)})
    return {"files": files, "main_imports": main_imports, "order": list(range(k))}


def render_module(f, files):
    defs, imps = [], []
    for g in f["funs"]:
        vis = "public " if g["public"] else ""
        body = f'"{g["name"]}"'
        c = g.get("call")
        if c:
            callee = files[c["target"]]["funs"][c["fun"]]["name"]
            expr = f"{callee}()" if c["via"] in ("own", "unqualified") else f"{c['via']}::{callee}()"
            body = f'{expr} ^ "<-{g["name"]}"'
        defs.append(f"{vis}fun {g['name']}(): String {{ {body} }}")
    for im in f["imports"]:
        t = files[im["target"]]["name"]
        imps.append(f'import "./{t}"' + (f' as {im["alias"]}' if im["alias"] else ""))
    en = f.get("enum")
    if en:
        text = ("public " if en["public"] else "") + f"enum {en['name']} {{ {en['variants'][0]}, {en['variants'][1]}(Int), }}"
        defs = [text] + defs if en["first"] else defs + [text]
    out = imps + defs if f.get("imports_first") else defs + imps
    return "\n".join(out) + "\n"


def expected_output(g, f, files=None):
    c = g.get("call")
    if c and files is not None:
        tf = files[c["target"]]
        return expected_output(tf["funs"][c["fun"]], tf, files) + "<-" + g["name"]
    return g["name"]


def write_project(ctx, case, main_src):
    d = ctx.scratch.dir()
    for f in case["files"]:
        with open(os.path.join(d, f["name"]), "w") as fh:
            fh.write(render_module(f, case["files"]))
    with open(os.path.join(d, "main.gdn"), "w") as fh:
        fh.write(main_src)
    return d


def errors_of(check_run):
    errs = []
    for line in check_run.out.splitlines():
        line = line.strip()
        if not line.startswith("{"):
            continue
        try:
            dct = json.loads(line)
        except json.JSONDecodeError:
            continue
        if dct.get("severity") == "error":
            errs.append(dct.get("message", ""))
    return errs


def check(case, ctx) -> Res:
    files = case["files"]
    header = ""
    for im in case["main_imports"]:
        header += f'import "./{files[im["target"]]["name"]}"' + (f' as {im["alias"]}' if im["alias"] else "") + "\n"
    legal, illegal = [], []
    for im in case["main_imports"]:
        f = files[im["target"]]
        for g in f["funs"]:
            expr = f'{im["alias"]}::{g["name"]}()' if im["alias"] else f'{g["name"]}()'
            (legal if g["public"] else illegal).append((expr, g, f))
        en = f.get("enum")
        if en:
            pre = f'{im["alias"]}::' if im["alias"] else ""
            for expr, shown in ((f"string_repr({pre}{en['variants'][0]})", en["variants"][0]),
                                (f"string_repr({pre}{en['variants'][1]}(3))", en["variants"][1] + "(3)")):
                g = {"name": shown, "public": en["public"], "call": None, "variant": True}
                (legal if en["public"] else illegal).append((expr, g, f))
    cyc = any(im["target"] != i and any(b["target"] == i for b in files[im["target"]]["imports"])
              for i, f in enumerate(files) for im in f["imports"]) or any(im["target"] == i for i, f in enumerate(files) for im in f["imports"])
    cls = [f"files:{len(files)}", "cycle" if cyc else "acyclic"]
    if any(g.get("variant") for _, g, _ in legal):
        cls.append("public-enum-variants")
    if any(g.get("variant") for _, g, _ in illegal):
        cls.append("private-enum-variants")
    # all legal uses together
    main_src = header + "".join(f"println({e})\n" for e, _, _ in legal)
    d = write_project(ctx, case, main_src)
    desc = "\n".join(f"--- {f['name']}\n{render_module(f, files)}" for f in files)
    c = run_garden(["check", "--json", "main.gdn"], cwd=d, timeout=30)
    r = run_garden(["run", "main.gdn"], cwd=d, timeout=30)
    for name, x in (("check", c), ("run", r)):
        if x.timed_out:
            return fail(f"`garden {name}` does not terminate on the project" + (" (cyclic imports)" if cyc else ""),
                        f"{desc}--- main.gdn\n{main_src}", classes=cls)
        if x.crashed:
            return fail(f"`garden {name}` crashed: " + x.crash_sig(), f"{x.err[-300:]}\n{desc}--- main.gdn\n{main_src}", classes=cls)
    errs = errors_of(c)
    if errs:
        if any(g.get("variant") and g["name"].split("(")[0] in " ".join(errs) for _, g, _ in legal):
            return fail("check reports an error for a variant of a public enum", f"{errs[:2]}\n{desc}--- main.gdn\n{main_src}", classes=cls)
        return fail("check reports an error for a legal use of a public function", f"{errs[:2]}\n{desc}--- main.gdn\n{main_src}", classes=cls)
    exp = "".join(expected_output(g, f, files) + "\n" for _, g, f in legal)
    if r.out != exp or "Exception" in r.err:
        sig = "a legal use of a public function fails or prints something else at run time"
        if any(g.get("variant") and g["name"].split("(")[0] in r.err for _, g, _ in legal):
            sig = "a variant of a public enum is not reachable at run time"
        import re as _re
        m = _re.search(r"No such variable `fn_(\d+)_\d+`[^\n]*\n-\| mod(\d+)\.gdn", r.err)
        if m:
            callee_file, caller_file = int(m.group(1)), int(m.group(2))
            unq = any(im["target"] == callee_file and not im["alias"] for im in files[caller_file]["imports"])

            def reaches(a, b, seen=()):
                return any(im["target"] == b or (im["target"] not in seen and reaches(im["target"], b, seen + (a,)))
                           for im in files[a]["imports"])
            if unq and callee_file != caller_file and reaches(callee_file, caller_file):
                # one root cause: an unqualified import copies the imported file's public definitions at import
                # time; inside an import cycle the other file is still being loaded and has none yet
                sig = "an unqualified import inside an import cycle does not see the other file's public functions"
        return fail(sig,
                    f"expected\n{exp}got\n{r.out}{r.err[:300]}\n{desc}--- main.gdn\n{main_src}", classes=cls)
    # each illegal use alone
    for e, g, f in illegal:
        src = header + f"println({e})\n"
        d2 = write_project(ctx, case, src)
        c2 = run_garden(["check", "--json", "main.gdn"], cwd=d2, timeout=30)
        r2 = run_garden(["run", "main.gdn"], cwd=d2, timeout=30)
        if c2.timed_out or r2.timed_out:
            return fail("command does not terminate on the project", f"{desc}--- main.gdn\n{src}", classes=cls)
        if c2.crashed or r2.crashed:
            return fail("command crashed: " + (c2.crash_sig() if c2.crashed else r2.crash_sig()), f"{desc}--- main.gdn\n{src}", classes=cls)
        how = "qualified" if "::" in e else "unqualified"
        what = "variant of a private enum" if g.get("variant") else "private function"
        if not errors_of(c2):
            return fail(f"check accepts a {how} use of a {what}", f"`{e}`\n{desc}--- main.gdn\n{src}", classes=cls)
        if g["name"] in r2.out or "Exception" not in r2.err:
            return fail(f"a {how} use of a {what} works at run time",
                        f"`{e}` printed {r2.out!r}\n{r2.err[:200]}\n{desc}--- main.gdn\n{src}", classes=cls)
    # re-export attempts: counted, not asserted
    reexp = 0
    for im in case["main_imports"]:
        if not im["alias"]:
            continue
        for inner in files[im["target"]]["imports"]:
            if inner["target"] == im["target"]:
                continue
            for g in files[inner["target"]]["funs"]:
                if g["public"]:
                    reexp += 1
    if reexp:
        cls.append("has-re-export-opportunity")
    nt = len(files) >= 2 and bool(illegal) and cyc
    return Res(ok=True, nontrivial=nt, classes=tuple(cls), extra=2 + 2 * len(illegal))


def show(case):
    return "\n".join(f"--- {f['name']}\n{render_module(f, case['files'])}" for f in case["files"]) + \
        "--- main imports: " + json.dumps(case["main_imports"])


SUBS = [Sub("projects", check, gen=gen, cases={"quick": 250, "thorough": 8000}, show=show),
        Sub("cycle-call-chains", check, gen=gen_cycle_chain, cases={"quick": 120, "thorough": 4000}, show=show)]
