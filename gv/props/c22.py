"""C22 — `check --fix` edits are safe."""
from __future__ import annotations

import re

from ..core import Res, Sub, fail, run_garden
from .c17 import ast_of

PROPERTY_ID = "C22"
LEVEL = "exploration"
RULE = ("Programs assembled from 1..5 lint triggers, one third drawn from a fixed pool covering every fix-producing "
        "lint (unused value / variable / parameter / import / type parameter, unnecessary let / return, repeated "
        "boolean operand, list-length comparison, `.len` without parentheses, unreachable match arm after `_`, "
        "missing match cases, `+` on floats / strings, misspelt method) and two thirds generated: 1..4 type "
        "parameters with a random used subset (functions and methods), 1..4 value parameters likewise (functions, "
        "methods, closures), repeated-boolean chains of 2..4 operands with parenthesised variants in four statement "
        "positions, 1..3 unused literals of 14 kinds in five positions, six unused-variable shapes, 1..3 unused "
        "imports in three positions, list-length comparisons with all six operators both ways round, 1..3 "
        "unreachable arms, and lint triggers nested inside text that another fix removes. Each trigger comes with "
        "calls that print its results; then layout-perturbed: statements joined onto one line, last line without a "
        "newline (a perturbed text is used only if the real parser gives it the same tree). Oracle: `garden check "
        "--fix --stdout` exits without crashing; its output parses; where the original ran without error the fixed "
        "program prints the same and also ends without error; repeating `--fix` reaches a fixed point within 5 "
        "rounds. Non-trivial = >= 2 fixes were applied, or a fixed line also carries other code; distinct = distinct "
        "source text.")
ASSUMPTIONS = ["each trigger's intended fix is behaviour-preserving by construction (right-hand sides of removed "
               "lets / values are pure)"]
MANIFEST = dict(
    category="exploration",
    technique="differential execution (original vs auto-fixed program) + fixpoint iteration over generated lint "
              "triggers under layout perturbation",
    text="~700 (quick) / 20 000 (thorough) generated programs pushed through the real `garden check --fix --stdout` "
         "and `garden run`; any crash, unparseable result, behaviour change or non-terminating fix sequence is a "
         "violation.",
    note="Trusted: the trigger pool's claim that the intended fix preserves behaviour; the CLI runner.",
    ref="DESIGN.md section 3, C22",
)

# (definition / statements, call line that makes the behaviour observable, may the original fail at run time?)
TRIGGERS = [
    ("fun uv_{n}(): List<Int> {{\n  [1, 2]\n  [3, {n}]\n}}", "println(string_repr(uv_{n}()))", False),
    ("fun uv2_{n}(): Int {{\n  \"é unused {n}\"\n  7\n  {n}\n}}", "println(string_repr(uv2_{n}()))", False),
    ("fun uvar_{n}(): Int {{\n  let unused_{n} = 1\n  {n}\n}}", "println(string_repr(uvar_{n}()))", False),
    ("fun uparam_{n}(p_{n}: Int, q_{n}: Int): Int {{\n  q_{n} + 1\n}}", "println(string_repr(uparam_{n}(1, {n})))", False),
    ("fun ulet_{n}(): Int {{\n  let tmp_{n} = {n} + 1\n  tmp_{n}\n}}", "println(string_repr(ulet_{n}()))", False),
    ("fun uret_{n}(): Int {{\n  return {n}\n}}", "println(string_repr(uret_{n}()))", False),
    ("fun rep_{n}(x: Bool, y: Bool): Bool {{\n  x || y || x\n}}", "println(string_repr(rep_{n}(False, True)))", False),
    ("fun rep2_{n}(x: Bool, y: Bool): Bool {{\n  (x && y) && x\n}}", "println(string_repr(rep2_{n}(True, True)))", False),
    ("fun lenc_{n}(xs: List<Int>): String {{\n  if xs.len() == 0 {{ \"empty\" }} else {{ \"full{n}\" }}\n}}",
     "println(lenc_{n}([]))\nprintln(lenc_{n}([1]))", False),
    ("fun lenc2_{n}(xs: List<Int>): Bool {{\n  0 != xs.len()\n}}", "println(string_repr(lenc2_{n}([{n}])))", False),
    ("enum Col_{n} {{ Red_{n}, Green_{n}, Blue_{n} }}\nfun unr_{n}(c: Col_{n}): String {{\n  match c {{\n    Red_{n} => \"red\"\n    _ => \"other\"\n    Green_{n} => \"green\"\n  }}\n}}",
     "println(unr_{n}(Green_{n}))", False),
    ("fun uimp_{n}(): Int {{ {n} }}\nimport \"__fs.gdn\" as unusedfs_{n}", "println(string_repr(uimp_{n}()))", False),
    ("fun utp_{n}<T>(): Int {{\n  {n}\n}}", "println(string_repr(utp_{n}()))", False),
    ("fun flt_{n}(): Float {{\n  1.0 + 2.0\n}}", "println(string_repr(flt_{n}()))", True),
    ("fun cat_{n}(): String {{\n  \"a\" + \"b{n}\"\n}}", "println(cat_{n}())", True),
    ("fun lenm_{n}(): Int {{\n  let items_{n} = [1, 2, 3]\n  items_{n}.len\n}}", "println(string_repr(lenm_{n}()))", True),
    ("fun typo_{n}(): Int {{\n  \"abc\".lenn()\n}}", "println(string_repr(typo_{n}()))", True),
    ("enum Sh_{n} {{ Dot_{n}, Sq_{n}, Tri_{n} }}\nfun miss_{n}(s: Sh_{n}): String {{\n  match s {{\n    Dot_{n} => \"dot\"\n  }}\n}}",
     "println(miss_{n}(Dot_{n}))", True),
    # top-level triggers (not inside a function)
    ("{n}0\nlet top_unused_{n} = \"x\"", "println(\"after top {n}\")", False),
]


def join_lines(r, src: str) -> str:
    """Join some statement lines inside bodies onto one line / drop the final newline."""
    lines = src.split("\n")
    out = []
    i = 0
    while i < len(lines):
        cur = lines[i]
        # join a body line with the next body line (both indented, neither opens or closes a block)
        while (i + 1 < len(lines) and r.int(0, 3) == 0 and cur.startswith("  ") and lines[i + 1].startswith("  ")
               and not cur.rstrip().endswith(("{", "}")) and not lines[i + 1].strip().startswith("}")
               and "=>" not in cur and "=>" not in lines[i + 1] and not cur.strip().startswith("return")):
            cur = cur + " " + lines[i + 1].strip()
            i += 1
        out.append(cur)
        i += 1
    s = "\n".join(out)
    if r.int(0, 3) == 0:
        s = s.rstrip("\n")
    return s


TP_NAMES = ["T", "U", "V", "W"]
LITERALS = ["7", "\"é lit\"", "[1, 2]", "(1, 2)", "1.5", "True", "x", "(3)", "\"two\nlines\"", "[\"a\", \"b\"]", "None",
            "Some(1)", "()", "[]"]
BOOL_ATOMS = ["x", "y", "(x)", "(y)", "z"]
EXPR_TRIGGERS = [("x || x", False), ("(x && y) && x", False), ("x || (x)", False), ("xs.len() == 0", False),
                 ("0 < xs.len()", False), ("\"a\" + \"b\"", True), ("xs.len", True), ("1.5 + 2.5 > 1.0", True)]


def t_type_params(r, n):
    k = r.int(1, 4)
    names = TP_NAMES[:k]
    used = [t for t in names if r.int(0, 1)]
    params = ", ".join(f"a_{i}: {t}" for i, t in enumerate(used))
    ret, body = ("Int", str(n))
    if used and r.bool():
        ret, body = used[0], "a_0"
    args = ", ".join(str(n + i) for i in range(len(used)))
    if r.int(0, 3) == 0:
        recv = "Int"
        d = f"method tp_{n}<{', '.join(names)}>(this: {recv}{', ' if params else ''}{params}): {ret} {{\n  {body}\n}}"
        return d, f"println(string_repr(1.tp_{n}({args})))", False
    d = f"fun tp_{n}<{', '.join(names)}>({params}): {ret} {{\n  {body}\n}}"
    return d, f"println(string_repr(tp_{n}({args})))", False


def t_params(r, n):
    k = r.int(1, 4)
    used = [i for i in range(k) if r.int(0, 1)]
    params = ", ".join(f"p{i}_{n}: Int" for i in range(k))
    body = " + ".join(["(" * 0 + f"p{i}_{n}" for i in used][:2] or [str(n)])
    if r.int(0, 3) == 0:
        # a `let` that shadows a parameter (used or not) and is itself used
        sh = r.int(0, k - 1)
        body = f"let p{sh}_{n} = {n + 50}\n  println(string_repr(p{sh}_{n}))\n  " + body
    args = ", ".join(str(n + i) for i in range(k))
    kind = r.int(0, 2)
    if kind == 0:
        return f"fun pr_{n}({params}): Int {{\n  {body}\n}}", f"println(string_repr(pr_{n}({args})))", False
    if kind == 1:
        return (f"method pr_{n}(this: String, {params}): Int {{\n  {body}\n}}",
                f"println(string_repr(\"s\".pr_{n}({args})))", False)
    return (f"fun pr_{n}(): Int {{\n  let clo_{n} = fun({params}) {{ {body} }}\n  clo_{n}({args})\n}}",
            f"println(string_repr(pr_{n}()))", False)


def t_repeated_bool(r, n):
    op = r.choice(["||", "&&"])
    k = r.int(2, 4)
    atoms = [r.choice(BOOL_ATOMS) for _ in range(k)]
    atoms[r.int(1, k - 1)] = r.choice([atoms[0], "(" + atoms[0].strip("()") + ")", atoms[0].strip("()")])
    expr = atoms[0]
    for a in atoms[1:]:
        expr = f"({expr}) {op} {a}" if r.int(0, 2) == 0 else f"{expr} {op} {a}"
    calls = "\n".join(f"println(string_repr(rb_{n}({a}, {b}, {c})))" for a in ("True", "False") for b in ("True", "False")
                      for c in ("True", "False"))
    wrap = r.int(0, 3)
    body = {0: f"  {expr}", 1: f"  let res_{n} = {expr}\n  res_{n}", 2: f"  if {expr} {{ True }} else {{ False }}",
            3: f"  return {expr}"}[wrap]
    return f"fun rb_{n}(x: Bool, y: Bool, z: Bool): Bool {{\n{body}\n}}", calls, False


def t_unused_values(r, n):
    k = r.int(1, 3)
    # literals whose items are calls with an effect: removing the statement would remove the effect
    impure = [f"[eff_{n}()]", f"(eff_{n}(), 1)", f'Dict["k" => eff_{n}()]', f"[[eff_{n}()], []]"]
    stmts = [r.choice(LITERALS + impure) for _ in range(k)]
    where = r.int(0, 4)
    if where == 0:
        body = "".join(f"  {v}\n" for v in stmts) + f"  {n}"
    elif where == 1:
        body = "  if x > 0 {\n" + "".join(f"    {v}\n" for v in stmts) + f"    println(\"branch {n}\")\n  }}\n  {n}"
    elif where == 2:
        body = "  for i in [1, 2] {\n" + "".join(f"    {v}\n" for v in stmts) + f"    println(string_repr(i))\n  }}\n  {n}"
    elif where == 3:
        body = f"  let clo = fun() {{ {' '.join(stmts)} {n} }}\n  clo()"
    else:
        body = "  " + " ".join(stmts) + f" {n}"
    return (f"fun eff_{n}(): Int {{\n  println(\"effect {n}\")\n  {n}\n}}\nfun uvs_{n}(x: Int): Int {{\n{body}\n}}",
            f"println(string_repr(uvs_{n}(1)))", False)


def t_unused_vars(r, n):
    kind = r.int(0, 5)
    if kind == 0:
        body = f"  let (ua_{n}, ub_{n}) = (1, {n})\n  ub_{n}"
    elif kind == 1:
        body = f"  let total = {n}\n  for ui_{n} in [1, 2] {{\n    println(\"iter\")\n  }}\n  total"
    elif kind == 2:
        body = f"  match Some({n}) {{\n    Some(um_{n}) => 1\n    None => 2\n  }}"
    elif kind == 3:
        body = f"  let uu_{n} = helper_{n}()\n  let uw_{n} = [1, 2]\n  {n}"
    elif kind == 4:
        body = f"  let uu_{n} = 1 let uk_{n} = {n}\n  uk_{n}"
    else:
        body = f"  let uu_{n}: Int = 1\n  let (uc_{n}, ud_{n}) = (1, 2)\n  {n}"
    return (f"fun helper_{n}(): Int {{\n  println(\"effect {n}\")\n  1\n}}\nfun uvr_{n}(): Int {{\n{body}\n}}",
            f"println(string_repr(uvr_{n}()))", False)


def t_imports(r, n):
    k = r.int(1, 3)
    files = ["__fs.gdn", "__random.gdn", "__time.gdn", "__reflect.gdn"]
    lines = []
    for i in range(k):
        f = files[(n + i) % 4]
        lines.append(f'import "{f}" as imp{i}_{n}' if r.int(0, 3) else f'import "{f}"')
    fun = f"fun im_{n}(): Int {{ {n} }}"
    pos = r.int(0, 2)
    if pos == 0:
        d = "\n".join(lines) + "\n" + fun
    elif pos == 1:
        d = fun + "\n" + "\n".join(lines)
    else:
        d = lines[0] + "\n" + fun + "\n" + "\n".join(lines[1:])
    return d, f"println(string_repr(im_{n}()))", False


def t_overlap(r, n):
    e, mf = r.choice(EXPR_TRIGGERS)
    wrap = r.int(0, 4)
    if wrap == 0:
        body = f"  let unused_{n} = {e}\n  {n}"
    elif wrap == 1:
        body = f"  println(string_repr({e}))\n  return {n}"
    elif wrap == 2:
        body = f"  let tmp_{n} = {e}\n  tmp_{n}"
    elif wrap == 3:
        body = f"  let unused_{n} = {e} let other_{n} = {e}\n  println(string_repr(other_{n}))\n  {n}"
    else:
        body = f"  println(string_repr({e}))\n  [{n}, 1]\n  return {n}"
    ret = "Int" if wrap != 2 else "Bool"
    if wrap == 2 and ("+" in e and "\"" in e or e == "xs.len"):
        ret = "String" if "\"" in e else "Int"
    return (f"fun ov_{n}(x: Bool, y: Bool, xs: List<Int>): {ret} {{\n{body}\n}}",
            f"println(string_repr(ov_{n}(True, False, [])))\nprintln(string_repr(ov_{n}(False, False, [1])))", mf)


def t_len_compare(r, n):
    lhs, rhs = "xs.len()", "0"
    op = r.choice(["==", "!=", ">", "<", ">=", "<="])
    if r.bool():
        lhs, rhs = rhs, lhs
    rhs2 = r.choice(["0", "1"])
    e = f"{lhs} {op} {rhs}".replace("0", rhs2, 1) if r.int(0, 3) == 0 else f"{lhs} {op} {rhs}"
    recv = r.choice(["xs", "[1, 2]", "xs.append(1)", "(xs)"])
    e = e.replace("xs", recv)
    return (f"fun lc_{n}(xs: List<Int>): Bool {{\n  {e}\n}}",
            f"println(string_repr(lc_{n}([])))\nprintln(string_repr(lc_{n}([1])))\nprintln(string_repr(lc_{n}([1, 2])))", False)


def t_unreachable(r, n):
    k = r.int(1, 3)
    arms = [f"    Aa_{n} => \"a\"", f"    Bb_{n}(_) => \"b\"", f"    Cc_{n} => \"c\""]
    pre = arms[:r.int(0, 2)]
    post = [r.choice(arms) for _ in range(k)]
    lines = pre + ["    _ => \"other\""] + post
    return (f"enum En_{n} {{ Aa_{n}, Bb_{n}(Int), Cc_{n} }}\nfun un_{n}(e: En_{n}): String {{\n  match e {{\n"
            + "\n".join(lines) + "\n  }\n}",
            f"println(un_{n}(Aa_{n}))\nprintln(un_{n}(Bb_{n}(1)))\nprintln(un_{n}(Cc_{n}))", False)


PARAMETRIC = [t_type_params, t_params, t_repeated_bool, t_unused_values, t_unused_vars, t_imports, t_overlap,
              t_len_compare, t_unreachable]


def gen(r):
    k = r.int(1, 5)
    defs, calls, may_fail, kinds = [], [], False, []
    for i in range(k):
        n = 10 + i
        if r.int(0, 2) == 0:
            d, c, mf = r.choice(TRIGGERS)
            d, c = d.format(n=n), c.format(n=n)
            kinds.append("static")
        else:
            f = r.choice(PARAMETRIC)
            d, c, mf = f(r, n)
            kinds.append(f.__name__[2:])
        defs.append(d)
        calls.append(c)
        may_fail = may_fail or mf
    base = "\n\n".join(defs) + "\n\n" + "\n".join(calls) + "\n"
    src = join_lines(r, base)
    return {"base": base, "src": src, "may_fail": may_fail, "kinds": sorted(set(kinds))}


def outcome(run):
    m = re.search(r"^(Exception|Error): (.*)", run.err, re.M)
    return ("err", m.group(2)[:120]) if m else ("ok",)


def check(case, ctx) -> Res:
    base, src = case["base"], case["src"]
    a0 = ast_of(ctx, base)
    if "died" in a0 or "panic" in a0 or a0.get("errors"):
        return Res(ok=True, classes=("base-does-not-parse",), detail=str(a0.get("errors"))[:200])
    a1 = ast_of(ctx, src)
    cls = ["perturbed"] + ["trigger:" + k for k in case.get("kinds", [])]
    if "died" in a1 or "panic" in a1 or a1.get("errors") or a1["items"] != a0["items"]:
        src = base
        cls[0] = "perturbation-rejected"
    path = ctx.scratch.file(src)
    orig = run_garden(["run", path], cwd=ctx.scratch.root, timeout=30)
    if orig.timed_out:
        return Res(ok=True, inconclusive=True, detail="original timed out")
    if orig.crashed:
        return Res(ok=True, inconclusive=True, detail="original crashes the interpreter (C02): " + orig.crash_sig())
    cur = src
    rounds = 0
    first_fixed = None
    for rounds in range(1, 7):
        p = ctx.scratch.file(cur)
        fx = run_garden(["check", "--fix", "--stdout", p], cwd=ctx.scratch.root, timeout=30)
        if fx.timed_out:
            return Res(ok=True, inconclusive=True, detail="check --fix timed out")
        if fx.crashed or fx.rc not in (0, 1):
            return fail("check --fix crashed: " + fx.crash_sig(),
                        f"round {rounds}: rc={fx.rc}\n{fx.err[-400:]}\n--- input of this round\n{cur}", classes=cls)
        new = fx.out
        if first_fixed is None:
            first_fixed = new
        if new == cur:
            break
        cur = new
    else:
        return fail("repeating --fix does not reach a fixed point in 5 rounds", f"--- original\n{src}\n--- after 6 rounds\n{cur}",
                    classes=cls)
    fixed = cur
    changed = fixed != src
    if changed:
        af = ast_of(ctx, fixed)
        if "died" in af or "panic" in af:
            return fail("fixed program crashes the parser", f"--- original\n{src}\n--- fixed\n{fixed}", classes=cls)
        if af["errors"]:
            return fail("fixed program does not parse", f"{af['errors'][:2]}\n--- original\n{src}\n--- fixed\n{fixed}", classes=cls)
        if outcome(orig) == ("ok",):
            p2 = ctx.scratch.file(fixed)
            after = run_garden(["run", p2], cwd=ctx.scratch.root, timeout=30)
            if after.crashed:
                return fail("fixed program crashes the interpreter: " + after.crash_sig(),
                            f"--- original\n{src}\n--- fixed\n{fixed}", classes=cls)
            if after.out != orig.out or outcome(after) != ("ok",):
                return fail("fixed program behaves differently",
                            f"--- original stdout\n{orig.out}--- fixed stdout\n{after.out}--- fixed stderr\n{after.err[:300]}\n"
                            f"--- original\n{src}\n--- fixed\n{fixed}", classes=cls)
            cls.append("behaviour-compared")
    # how many lines changed / does a changed line carry other code?
    nfix = sum(1 for x, y in zip(src.split("\n"), (first_fixed or src).split("\n")) if x != y) + abs(
        len(src.split("\n")) - len((first_fixed or src).split("\n")))
    joined = any(len(re.findall(r"\b(let|println|return)\b|\[|\d+\b", ln)) >= 3 for ln in src.split("\n") if ln.startswith("  "))
    cls.append(f"rounds:{rounds}")
    return Res(ok=True, nontrivial=changed and (nfix >= 2 or joined), classes=tuple(cls))


def show(case):
    return case["src"]


SUBS = [Sub("fix-safety", check, gen=gen, cases={"quick": 700, "thorough": 20000}, show=show)]
