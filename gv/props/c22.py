"""C22 — `check --fix` edits are safe."""
from __future__ import annotations

import re

from ..core import Res, Sub, fail, run_garden
from .c17 import ast_of

PROPERTY_ID = "C22"
LEVEL = "exploration"
RULE = ("Programs assembled from 1..5 lint triggers drawn from a pool covering every fix-producing lint (unused value, "
        "unused variable / parameter / import / type parameter, unnecessary let / return, repeated boolean operand, "
        "list-length comparison, `.len` without parentheses, unreachable match arm after `_`, missing match cases, "
        "`+` on floats / strings, misspelt method), each with a call that prints its result, then layout-perturbed: "
        "statements joined onto one line, two triggers on one line, triggers on adjacent lines, last line without a "
        "newline, multi-byte characters in neighbouring strings (a perturbed text is used only if the real parser "
        "gives it the same tree). Oracle: `garden check --fix --stdout` exits without crashing; its output parses; "
        "where the original ran without error the fixed program prints the same and also ends without error; "
        "repeating `--fix` reaches a fixed point within 5 rounds. Non-trivial = >= 2 fixes were applied, or a fixed "
        "line also carries other code; distinct = distinct source text.")
ASSUMPTIONS = ["each trigger's intended fix is behaviour-preserving by construction (right-hand sides of removed "
               "lets / values are pure)"]
MANIFEST = dict(
    category="exploration",
    technique="differential execution (original vs auto-fixed program) + fixpoint iteration over generated lint "
              "triggers under layout perturbation",
    text="~700 (quick) / 20 000 (thorough) generated programs pushed through the real `garden check --fix --stdout` "
         "and `garden run`; any crash, unparseable result, behaviour change or non-terminating fix sequence is a "
         "violation.",
    note="Trusted: the trigger pool's claim that the intended fix preserves behaviour; the CLI runner.",
    ref="DESIGN.md section 3, C22",
)

# (definition / statements, call line that makes the behaviour observable, may the original fail at run time?)
TRIGGERS = [
    ("fun uv_{n}(): List<Int> {{\n  [1, 2]\n  [3, {n}]\n}}", "println(string_repr(uv_{n}()))", False),
    ("fun uv2_{n}(): Int {{\n  \"é unused {n}\"\n  7\n  {n}\n}}", "println(string_repr(uv2_{n}()))", False),
    ("fun uvar_{n}(): Int {{\n  let unused_{n} = 1\n  {n}\n}}", "println(string_repr(uvar_{n}()))", False),
    ("fun uparam_{n}(p_{n}: Int, q_{n}: Int): Int {{\n  q_{n} + 1\n}}", "println(string_repr(uparam_{n}(1, {n})))", False),
    ("fun ulet_{n}(): Int {{\n  let tmp_{n} = {n} + 1\n  tmp_{n}\n}}", "println(string_repr(ulet_{n}()))", False),
    ("fun uret_{n}(): Int {{\n  return {n}\n}}", "println(string_repr(uret_{n}()))", False),
    ("fun rep_{n}(x: Bool, y: Bool): Bool {{\n  x || y || x\n}}", "println(string_repr(rep_{n}(False, True)))", False),
    ("fun rep2_{n}(x: Bool, y: Bool): Bool {{\n  (x && y) && x\n}}", "println(string_repr(rep2_{n}(True, True)))", False),
    ("fun lenc_{n}(xs: List<Int>): String {{\n  if xs.len() == 0 {{ \"empty\" }} else {{ \"full{n}\" }}\n}}",
     "println(lenc_{n}([]))\nprintln(lenc_{n}([1]))", False),
    ("fun lenc2_{n}(xs: List<Int>): Bool {{\n  0 != xs.len()\n}}", "println(string_repr(lenc2_{n}([{n}])))", False),
    ("enum Col_{n} {{ Red_{n}, Green_{n}, Blue_{n} }}\nfun unr_{n}(c: Col_{n}): String {{\n  match c {{\n    Red_{n} => \"red\"\n    _ => \"other\"\n    Green_{n} => \"green\"\n  }}\n}}",
     "println(unr_{n}(Green_{n}))", False),
    ("fun uimp_{n}(): Int {{ {n} }}\nimport \"__fs.gdn\" as unusedfs_{n}", "println(string_repr(uimp_{n}()))", False),
    ("fun utp_{n}<T>(): Int {{\n  {n}\n}}", "println(string_repr(utp_{n}()))", False),
    ("fun flt_{n}(): Float {{\n  1.0 + 2.0\n}}", "println(string_repr(flt_{n}()))", True),
    ("fun cat_{n}(): String {{\n  \"a\" + \"b{n}\"\n}}", "println(cat_{n}())", True),
    ("fun lenm_{n}(): Int {{\n  let items_{n} = [1, 2, 3]\n  items_{n}.len\n}}", "println(string_repr(lenm_{n}()))", True),
    ("fun typo_{n}(): Int {{\n  \"abc\".lenn()\n}}", "println(string_repr(typo_{n}()))", True),
    ("enum Sh_{n} {{ Dot_{n}, Sq_{n}, Tri_{n} }}\nfun miss_{n}(s: Sh_{n}): String {{\n  match s {{\n    Dot_{n} => \"dot\"\n  }}\n}}",
     "println(miss_{n}(Dot_{n}))", True),
    # top-level triggers (not inside a function)
    ("{n}0\nlet top_unused_{n} = \"x\"", "println(\"after top {n}\")", False),
]


def join_lines(r, src: str) -> str:
    """Join some statement lines inside bodies onto one line / drop the final newline."""
    lines = src.split("\n")
    out = []
    i = 0
    while i < len(lines):
        cur = lines[i]
        # join a body line with the next body line (both indented, neither opens or closes a block)
        while (i + 1 < len(lines) and r.int(0, 3) == 0 and cur.startswith("  ") and lines[i + 1].startswith("  ")
               and not cur.rstrip().endswith(("{", "}")) and not lines[i + 1].strip().startswith("}")
               and "=>" not in cur and "=>" not in lines[i + 1] and not cur.strip().startswith("return")):
            cur = cur + " " + lines[i + 1].strip()
            i += 1
        out.append(cur)
        i += 1
    s = "\n".join(out)
    if r.int(0, 3) == 0:
        s = s.rstrip("\n")
    return s


def gen(r):
    k = r.int(1, 5)
    defs, calls, may_fail = [], [], False
    for i in range(k):
        d, c, mf = r.choice(TRIGGERS)
        n = 10 + i
        defs.append(d.format(n=n))
        calls.append(c.format(n=n))
        may_fail = may_fail or mf
    base = "\n\n".join(defs) + "\n\n" + "\n".join(calls) + "\n"
    src = join_lines(r, base)
    return {"base": base, "src": src, "may_fail": may_fail}


def outcome(run):
    m = re.search(r"^(Exception|Error): (.*)", run.err, re.M)
    return ("err", m.group(2)[:120]) if m else ("ok",)


def check(case, ctx) -> Res:
    base, src = case["base"], case["src"]
    a0 = ast_of(ctx, base)
    if "died" in a0 or "panic" in a0 or a0.get("errors"):
        return Res(ok=True, classes=("base-does-not-parse",), detail=str(a0.get("errors"))[:200])
    a1 = ast_of(ctx, src)
    cls = ["perturbed"]
    if "died" in a1 or "panic" in a1 or a1.get("errors") or a1["items"] != a0["items"]:
        src = base
        cls = ["perturbation-rejected"]
    path = ctx.scratch.file(src)
    orig = run_garden(["run", path], cwd=ctx.scratch.root, timeout=30)
    if orig.timed_out:
        return Res(ok=True, inconclusive=True, detail="original timed out")
    if orig.crashed:
        return Res(ok=True, inconclusive=True, detail="original crashes the interpreter (C02): " + orig.crash_sig())
    cur = src
    rounds = 0
    first_fixed = None
    for rounds in range(1, 7):
        p = ctx.scratch.file(cur)
        fx = run_garden(["check", "--fix", "--stdout", p], cwd=ctx.scratch.root, timeout=30)
        if fx.timed_out:
            return Res(ok=True, inconclusive=True, detail="check --fix timed out")
        if fx.crashed or fx.rc not in (0, 1):
            return fail("check --fix crashed: " + fx.crash_sig(),
                        f"round {rounds}: rc={fx.rc}\n{fx.err[-400:]}\n--- input of this round\n{cur}", classes=cls)
        new = fx.out
        if first_fixed is None:
            first_fixed = new
        if new == cur:
            break
        cur = new
    else:
        return fail("repeating --fix does not reach a fixed point in 5 rounds", f"--- original\n{src}\n--- after 6 rounds\n{cur}",
                    classes=cls)
    fixed = cur
    changed = fixed != src
    if changed:
        af = ast_of(ctx, fixed)
        if "died" in af or "panic" in af:
            return fail("fixed program crashes the parser", f"--- original\n{src}\n--- fixed\n{fixed}", classes=cls)
        if af["errors"]:
            return fail("fixed program does not parse", f"{af['errors'][:2]}\n--- original\n{src}\n--- fixed\n{fixed}", classes=cls)
        if outcome(orig) == ("ok",):
            p2 = ctx.scratch.file(fixed)
            after = run_garden(["run", p2], cwd=ctx.scratch.root, timeout=30)
            if after.crashed:
                return fail("fixed program crashes the interpreter: " + after.crash_sig(),
                            f"--- original\n{src}\n--- fixed\n{fixed}", classes=cls)
            if after.out != orig.out or outcome(after) != ("ok",):
                return fail("fixed program behaves differently",
                            f"--- original stdout\n{orig.out}--- fixed stdout\n{after.out}--- fixed stderr\n{after.err[:300]}\n"
                            f"--- original\n{src}\n--- fixed\n{fixed}", classes=cls)
            cls.append("behaviour-compared")
    # how many lines changed / does a changed line carry other code?
    nfix = sum(1 for x, y in zip(src.split("\n"), (first_fixed or src).split("\n")) if x != y) + abs(
        len(src.split("\n")) - len((first_fixed or src).split("\n")))
    joined = any(len(re.findall(r"\b(let|println|return)\b|\[|\d+\b", ln)) >= 3 for ln in src.split("\n") if ln.startswith("  "))
    cls.append(f"rounds:{rounds}")
    return Res(ok=True, nontrivial=changed and (nfix >= 2 or joined), classes=tuple(cls))


def show(case):
    return case["src"]


SUBS = [Sub("fix-safety", check, gen=gen, cases={"quick": 700, "thorough": 20000}, show=show)]
