"""C17 — formatting never changes a program's meaning."""
from __future__ import annotations

import re

from ..core import Res, Sub, fail, run_garden, hook_panic_signature
from ..gen import layout as L
from ..gen import text as T

PROPERTY_ID = "C17"
LEVEL = "exploration"
RULE = ("Parseable programs (the repository's 438 test programs, generated G-core programs, extra statements covering "
        "multi-line strings, long signatures, else-if chains, braceless match arms, structs/enums/tests/methods/"
        "imports/doc comments) under random layout perturbation of their existing whitespace gaps plus inserted "
        "comments (bodies containing `=`, `=>`, `,`, braces, quotes, non-ASCII); a perturbed text is used only if the "
        "real parser gives it the same tree as the base text. Oracle: `format(src)` parses without errors to the same "
        "position-free syntax tree (structure, identifiers, literal values incl. string contents, type hints, doc "
        "comments; optional commas ignored) and has the same ordered list of comment texts. The seed corpus is also "
        "checked unperturbed (exhaustive). Non-trivial = the source has a comment not at line start, a multi-line "
        "string, a line with >= 2 statements or a signature line > 100 columns; distinct = distinct source text.")
ASSUMPTIONS = ["the position-free tree is the parser's own derived Debug output with ids/positions removed "
               "(hook op `ast`); `format` is the function behind `garden format` (confirmed through the CLI on replay)"]
MANIFEST = dict(
    category="exploration",
    technique="metamorphic property testing (parse(format(x)) == parse(x), comments preserved) over perturbed "
              "generated and corpus programs",
    text="~3 000 (quick) / 100 000 (thorough) perturbed programs plus the whole seed corpus; any change of tree or "
         "comments, or output that no longer parses, is a violation.",
    note="Trusted: the `ast` hook op (direct call of the parser + Debug print) and the string comparison.",
    ref="DESIGN.md section 3, C17",
)


def ast_of(ctx, src):
    return ctx.hook_call({"op": "ast", "src": src}, timeout=20)


def fmt_of(ctx, src):
    return ctx.hook_call({"op": "format", "src": src}, timeout=20)


def features(src: str) -> set:
    fs = set()
    for line in src.split("\n"):
        i = line.find("//")
        if i > 0 and line[:i].strip():
            fs.add("trailing-comment")
        if len(line) > 100 and ("fun " in line or "method " in line):
            fs.add("long-signature")
    if re.search(r'"[^"\n]*\n[^"]*"', src):
        fs.add("multi-line-string")
    if re.search(r"\b(let|println)\b[^\n]*\b(let|println)\b", src):
        fs.add("two-statements-on-a-line")
    if any(ord(c) > 127 for c in src):
        fs.add("non-ascii")
    return fs


def choose_input(ctx, case):
    """-> (src, base_ast, classes) or (None, None, classes) when the base does not parse."""
    base = case["base"]
    a0 = ast_of(ctx, base)
    if "died" in a0 or "panic" in a0 or a0.get("errors"):
        return None, None, ["base-does-not-parse"]
    src = case.get("src", base)
    if src == base:
        return base, a0, ["unperturbed"]
    a1 = ast_of(ctx, src)
    if "died" in a1 or "panic" in a1 or a1.get("errors") or a1["items"] != a0["items"]:
        return base, a0, ["perturbation-rejected"]
    return src, a1, ["perturbed"]


def first_diff(a: list, b: list) -> str:
    for i, (x, y) in enumerate(zip(a, b)):
        if x != y:
            j = next((k for k in range(min(len(x), len(y))) if x[k] != y[k]), min(len(x), len(y)))
            return f"item {i}: ...{x[max(0, j - 60):j + 80]}\n   vs  ...{y[max(0, j - 60):j + 80]}"
    return f"{len(a)} items vs {len(b)} items"


def check(case, ctx) -> Res:
    src, a, cls = choose_input(ctx, case)
    if src is None:
        return Res(ok=True, classes=tuple(cls))
    f = fmt_of(ctx, src)
    if "died" in f or "panic" in f:
        sig = f.get("died") or hook_panic_signature(f["panic"])
        return fail("formatter crashed: " + sig, f"format crashed on\n{src}", classes=cls)
    out = f["formatted"]
    b = ast_of(ctx, out)
    fs = features(src)
    cls += ["has:" + x for x in fs]
    if "died" in b or "panic" in b:
        return fail("formatted output crashes the parser", f"--- source\n{src}\n--- formatted\n{out}", classes=cls)
    if b["errors"]:
        sig = "formatted output does not parse"
        if any("=" in c for c in a["comments"]):
            sig += " (source has a comment containing `=`)"
        return fail(sig, f"{b['errors'][:2]}\n--- source\n{src}\n--- formatted\n{out}", classes=cls)
    if b["items"] != a["items"]:
        sig = "formatting changed the syntax tree"
        if "multi-line-string" in fs and "StringLiteral" in first_diff(a["items"], b["items"]):
            sig += " (multi-line string literal)"
        return fail(sig, f"{first_diff(a['items'], b['items'])}\n--- source\n{src}\n--- formatted\n{out}", classes=cls)
    # a comment token's text includes its line terminator; adding the file's final newline is a whitespace change
    ca = [c.rstrip("\r\n") for c in a["comments"]]
    cb = [c.rstrip("\r\n") for c in b["comments"]]
    if cb != ca:
        sig = "formatting changed the comments"
        if any("=" in c for c in a["comments"]):
            sig += " (source has a comment containing `=`)"
        return fail(sig, f"comments before: {a['comments']}\ncomments after:  {b['comments']}\n--- source\n{src}\n"
                         f"--- formatted\n{out}", classes=cls)
    if ctx.strict:
        # replay: confirm through the real CLI
        path = ctx.scratch.file(src)
        r = run_garden(["format", path], cwd=ctx.scratch.root)
        if r.crashed or r.out != out:
            return fail("CLI `garden format` disagrees with the hook", f"rc={r.rc}\n{r.err[:300]}", classes=cls)
    nt = bool(fs & {"trailing-comment", "multi-line-string", "two-statements-on-a-line", "long-signature"})
    return Res(ok=True, nontrivial=nt, classes=tuple(cls))


def gen(r):
    base = L.base_source(r)
    src = L.perturb(r, base)
    if r.bool(0.3):
        src = L.perturb(r, src)
    return {"base": base, "src": src}


def enum_corpus(tier):
    for e in T.corpus():
        yield {"base": e["src"]}


def show(case):
    return case.get("src", case["base"])


SUBS = [
    Sub("corpus", check, enum=enum_corpus, show=show),
    Sub("perturbed", check, gen=gen, cases={"quick": 3000, "thorough": 100000}, show=show),
]
