"""C20 — extract variable and extract function preserve behaviour."""
from __future__ import annotations

import re

from ..core import Res, Sub, fail, run_garden
from ..gen import core as G

PROPERTY_ID = "C20"
LEVEL = "exploration"
RULE = ("G-core generated programs without assignment, `+=` or while loops (shadowing, closures, nested blocks, "
        "for loops, match arms with pattern variables, early exits, failing operations allowed). Selections: every "
        "sub-expression the generator knows to be pure and total (no output, cannot fail, calls only pure "
        "terminating functions), by its exact source span, 3..5 random ones per program (expressions that use a variable bound in a nested block, and branching expressions whose own blocks bind variables, are picked four times as often); and runs of 1..3 sibling "
        "statements that are `let`s with pure initialisers (whose variables are not used after the run) or pure "
        "expression statements (extract-function only). "
        "Second population: a function whose body is a generated tree of value blocks (then / else / else-if / "
        "match-arm / for-body / closure-body), each binding a block-local variable used by pure calls in statement, "
        "argument and result positions (one of those locals may share its name with a top-level function); the "
        "selections are those calls. "
        "Each selection is given to the real `reftest-extract-variable` and `reftest-extract-function` with a fresh "
        "name; where the command produces a program it must parse, and - where the original ran without error - "
        "print the same stdout and end without error. Non-trivial = the command changed the program and the selected "
        "expression refers to a local variable, parameter, loop or pattern variable; distinct = distinct "
        "(program, selection, command).")
ASSUMPTIONS = ["purity / totality of the selected expression is the generator's claim (gv/gen/core.py), not inferred "
               "from the text",
               "a command that declines (non-zero exit, message) is not a violation"]
MANIFEST = dict(
    category="exploration",
    technique="differential execution of original vs refactored program over generated assignment-free programs and "
              "every pure sub-expression span (real extract commands)",
    text="~1 100 (quick) / 40 000 (thorough) extractions performed by the real commands and executed; an unparseable "
         "result or a behaviour change is a violation.",
    note="Trusted: the generator's purity flags; the outcome comparison.",
    ref="DESIGN.md section 3, C20",
)

VAR_NAME = "extracted_value_zz"
FUN_NAME = "extracted_fun_zz"


def uses_local(e) -> bool:
    for x in G.walk_expr(e):
        if isinstance(x, G.E) and x.kind == "var":
            return True
    return False


def gen(r):
    knobs = G.Knobs(shadowing=r.bool(), annotations=r.choice(["full", "partial", "none"]), assignment=False,
                    while_loops=False, errors=r.bool(0.3), max_stmts=r.choice([3, 6]), max_funs=r.choice([0, 1, 2]),
                    max_depth=r.choice([2, 3]), exit_stress=False)
    prog, src = G.generate(r, knobs)
    exprs, runs = [], []
    nodes = list(G.walk_program(prog))
    top_blocks = {id(f.body) for f in prog.funs} | {id(prog.main)}
    nested = [b.span for b in nodes if isinstance(b, G.Block) and id(b) not in top_blocks and b.span]

    def in_nested(span):
        return span is not None and any(s <= span[0] and span[1] <= e for s, e in nested)

    for n in nodes:
        if isinstance(n, G.E) and n.pure and n.span and n.span[1] > n.span[0]:
            # selections that depend on block-local bindings are where insertion points and free-variable analysis
            # can go wrong: an expression using a variable bound inside a nested block, and a branching expression
            # whose own blocks bind variables, are listed four times
            sub = list(G.walk_expr(n))
            block_local = any(isinstance(x, G.E) and x.kind == "var" and in_nested(getattr(x.args[0], "def_span", None))
                              for x in sub)
            binds_inside = n.kind in ("if", "match") and any(isinstance(x, G.S) and x.kind in ("let", "letd") for x in sub)
            item = {"span": list(n.span), "kind": n.kind, "local": uses_local(n),
                    "shape": "block-local" if block_local else ("binds-inside" if binds_inside else "plain")}
            for _ in range(4 if (block_local or binds_inside) else 1):
                exprs.append(item)
        if isinstance(n, G.Block):
            ok = [s for s in n.stmts]
            for i in range(len(ok)):
                for j in range(i + 1, min(i + 3, len(ok)) + 1):
                    seg = ok[i:j]
                    if all(pure_stmt(s) for s in seg) and seg[0].span and seg[-1].span \
                            and not bound_used_later(seg, ok[j:], n.value):
                        runs.append({"span": [seg[0].span[0], seg[-1].span[1]], "kind": f"stmts:{len(seg)}",
                                     "local": True})
    sels = []
    for _ in range(r.int(3, 5)):
        if exprs:
            sels.append(exprs[r.int(0, len(exprs) - 1)])
    if runs and r.bool(0.6):
        sels.append(runs[r.int(0, len(runs) - 1)])
    return {"src": src, "sels": sels}


def gen_ctrl(r):
    """a function whose body is a generated tree of value blocks (then / else / else-if / match-arm / for-body /
    closure-body), each binding a block-local variable and using it in pure calls `helper(vK + M)` in statement,
    argument and result positions; the selections are exactly those calls (found by their unique M)"""
    counter = [100]
    sels = []
    shade_used = [False]

    def fresh():
        counter[0] += 1
        return counter[0]

    def use(v):
        m = fresh()
        text = f"helper({v} + {m})"
        sels.append(text)
        return text

    def value_block(d, ind, src_var):
        """-> (lines, result expression)"""
        k = fresh()
        v = f"v{k}"
        if not shade_used[0] and r.int(0, 3) == 0:
            # one block-local variable per program may share its name with the top-level function `shade`
            v = "shade"
            shade_used[0] = True
        lines = [f"{ind}let {v} = {src_var} + {k}"]
        if r.bool():
            lines.append(f"{ind}println(string_repr({use(v)}))")
        res = use(v)
        if d > 0:
            c = r.int(0, 5)
            rk = f"r{fresh()}"
            if c == 0:
                a, ra = value_block(d - 1, ind + "  ", v)
                b, rb = value_block(d - 1, ind + "  ", v)
                lines += [f"{ind}let {rk} = if {v} > {r.int(100, 110)} {{"] + a + [f"{ind}  {ra}", f"{ind}}} else {{"] + b + [f"{ind}  {rb}", f"{ind}}}"]
                res = f"{res} + {rk}"
            elif c == 1:
                a, ra = value_block(d - 1, ind + "  ", v)
                b, rb = value_block(d - 1, ind + "  ", v)
                cc, rc = value_block(d - 1, ind + "  ", v)
                lines += [f"{ind}let {rk} = if i == 0 {{"] + a + [f"{ind}  {ra}", f"{ind}}} else if i == 1 {{"] + b + [f"{ind}  {rb}", f"{ind}}} else {{"] + cc + [f"{ind}  {rc}", f"{ind}}}"]
                res = f"{res} + {rk}"
            elif c == 2:
                a, ra = value_block(d - 1, ind + "    ", "m")
                b, rb = value_block(d - 1, ind + "    ", v)
                lines += [f"{ind}let {rk} = match (if i == {r.int(0, 2)} {{ Some({v}) }} else {{ None }}) {{", f"{ind}  Some(m) => {{"] + a + \
                         [f"{ind}    {ra}", f"{ind}  }}", f"{ind}  None => {{"] + b + [f"{ind}    {rb}", f"{ind}  }}", f"{ind}}}"]
                res = f"{res} + {rk}"
            elif c == 3:
                a, ra = value_block(d - 1, ind + "  ", "j")
                lines += [f"{ind}for j in [{v}] {{"] + a + [f"{ind}  println(string_repr({ra}))", f"{ind}}}"]
            elif c == 4:
                a, ra = value_block(d - 1, ind + "  ", "e")
                lines += [f"{ind}let {rk} = [{v}].map(fun(e: Int): Int {{"] + a + [f"{ind}  {ra}", f"{ind}}})"]
                res = f"{res} + {rk}.len()"
            else:
                a, ra = value_block(d - 1, ind + "  ", v)
                lines += [f"{ind}if {v} > 0 {{"] + a + [f"{ind}  println(string_repr({ra}))", f"{ind}}}"]
        return lines, res

    lines, res = value_block(r.choice([1, 2, 3]), "  ", "i")
    src = ("fun helper(n: Int): Int { n * 2 }\n\nfun shade(n: Int): Int { n + 1 }\n\nfun body(i: Int): Int {\n" + "\n".join(lines) + f"\n  {res}\n}}\n\n"
           "for i in [0, 1, 2] {\n  println(string_repr(body(i) + shade(i)))\n}\n")
    picked = []
    for _ in range(r.int(3, 5)):
        t = sels[r.int(0, len(sels) - 1)]
        o = src.find(t)
        picked.append({"span": [o, o + len(t)], "kind": "call", "local": True,
                       "shape": "ctrl-tree-shadows-toplevel" if "shade" in t else "ctrl-tree"})
    return {"src": src, "sels": picked}


def bound_used_later(seg, rest, value) -> bool:
    """does a variable bound by a `let` in the selected run occur after it?  Moving such a `let` into a function
    takes the binding away from the rest of the block: that selection is not side-effect-free."""
    bound = set()
    for st in seg:
        if st.kind == "let":
            bound.add(st.args[0].id)
        elif st.kind == "letd":
            bound.update(b.id for b in st.args[0])
    if not bound:
        return False
    later = []
    for st in rest:
        later.extend(G.walk_stmt(st))
    if value is not None:
        later.extend(G.walk_expr(value))
    for x in later:
        if isinstance(x, G.E) and x.kind == "var" and getattr(x.args[0], "id", None) in bound:
            return True
        if isinstance(x, G.S) and x.kind in ("assign", "addassign") and getattr(x.args[0], "id", None) in bound:
            return True
    return False


def pure_stmt(s) -> bool:
    if s.kind == "let":
        return bool(s.args[2].pure) and s.args[2].kind != "lambda"
    if s.kind == "letd":
        return bool(s.args[1].pure)
    if s.kind == "expr":
        return bool(s.args[0].pure)
    return False


def outcome(run):
    m = re.search(r"^(Exception|Error): (.*)$", run.err, re.M)
    return (run.rc, m.group(2) if m else None)


def check(case, ctx) -> Res:
    src = case["src"]
    if not case["sels"]:
        return Res(ok=True, classes=("no-pure-expression",))
    path = ctx.scratch.file(src)
    base = run_garden(["run", path], cwd=ctx.scratch.root, timeout=30)
    if base.timed_out or base.crashed:
        return Res(ok=True, inconclusive=True, detail="original does not run cleanly: " + base.crash_sig())
    base_ok = outcome(base) == (0, None)
    cls = set()
    changed, local = 0, False
    for sel in case["sels"]:
        s, e = sel["span"]
        text = src[s:e]
        tools = [("reftest-extract-function", FUN_NAME)]
        if not sel["kind"].startswith("stmts"):
            tools.append(("reftest-extract-variable", VAR_NAME))
        for tool, name in tools:
            t = run_garden([tool, path, str(s), str(e), "--name", name], cwd=ctx.scratch.root, timeout=30)
            short = tool.replace("reftest-", "")
            what = f"{short} of `{text[:70]}` (bytes {s}..{e}, {sel['kind']})"
            if t.crashed:
                return fail(f"{short} crashed: " + t.crash_sig(), f"{what}\n{t.err[-300:]}\n--- program\n{src}", classes=tuple(cls))
            if t.rc != 0 or t.out == src or not t.out.strip():
                cls.add(f"{short}:declined")
                continue
            new = t.out
            changed += 1
            local = local or sel["local"]
            cls.add(f"{short}:applied")
            cls.add("shape:" + sel.get("shape", "stmts"))
            a = ctx.hook_call({"op": "ast", "src": new}, timeout=20)
            if "died" in a or "panic" in a or a.get("errors"):
                return fail(f"{short} result does not parse [{sel['kind']}]",
                            f"{what}\n{(a.get('errors') or a)[:2] if isinstance(a.get('errors'), list) else a}\n--- result\n{new}",
                            classes=tuple(cls))
            if not base_ok:
                continue
            p2 = ctx.scratch.file(new)
            r2 = run_garden(["run", p2], cwd=ctx.scratch.root, timeout=30)
            if r2.timed_out:
                return Res(ok=True, inconclusive=True, detail="refactored program timed out")
            if r2.crashed:
                return fail(f"{short} result crashes the interpreter: " + r2.crash_sig(), f"{what}\n--- result\n{new}",
                            classes=tuple(cls))
            if r2.out != base.out or outcome(r2) != (0, None):
                err = outcome(r2)[1]
                sig_err = re.sub(r"`[^`]*`", "`..`", err)[:70] if err else "different output"
                return fail(f"{short} changes behaviour [{sel['kind']}]: {sig_err}",
                            f"{what}\n--- original stdout\n{base.out[:300]}\n--- refactored stdout\n{r2.out[:300]}\n"
                            f"--- refactored stderr\n{r2.err[:500]}\n--- original\n{src}\n--- result\n{new}", classes=tuple(cls))
    return Res(ok=True, nontrivial=changed > 0 and local, classes=tuple(sorted(cls)), extra=max(1, changed))


def show(case):
    return {"sels": case["sels"], "src": case["src"][:500]}


SUBS = [Sub("extract", check, gen=gen, cases={"quick": 180, "thorough": 8000}, show=show),
        Sub("block-local-selections", check, gen=gen_ctrl, cases={"quick": 120, "thorough": 5000}, show=show)]
