"""C03 — operator chains are left-associative with uniform precedence."""
from __future__ import annotations

import itertools
import re

from ..core import Res, Sub, fail
from ..evalbatch import eval_cases, expr_case
from ..model import arith as A
from ..model import rdebug

PROPERTY_ID = "C03"
LEVEL = "exploration"
EXHAUSTIVE = True
RULE = ("Exhaustive: every operator sequence of length 1..3 (chains of 2..4 operands) over all 21 binary operators "
        "(quick; length 4 = 5 operands in thorough), operands chosen by type so that the left-nested reading "
        "type-checks where possible; random: chains of up to 12 operands with mixed operator families and random "
        "explicit parentheses. Two oracles per chain: (structural) the parsed tree from the `ast` hook equals the "
        "left-nested tree built from the generated chain, parentheses preserved; (behavioural) `garden run` prints "
        "the value, or raises the error kind, that the reference arithmetic gives for the left-nested tree. "
        "Non-trivial = >= 4 operands, or 3 operands with two different operators of which at least one is "
        "non-associative/non-commutative; distinct = distinct chain text.")
ASSUMPTIONS = ["operand evaluation order lhs-then-rhs (repository test runtime/binop_eval_order.gdn)",
               "the S-expression is the derived Debug output of the real parser's tree with ids/positions removed"]
MANIFEST = dict(
    category="exploration",
    technique="exhaustive small-scope enumeration + random chains; structural (parse tree) and differential (reference "
              "evaluator) oracles",
    text="All operator chains with up to 4 operands (9 723 chains; 5 operands = 204k in thorough) are enumerated and "
         "checked structurally and by evaluation; longer and parenthesised chains are sampled. Exhaustive for the "
         "enumerated lengths only.",
    note="Trusted: the Debug-output parser (gv/model/rdebug.py), the reference arithmetic, the `ast` hook wrapper "
         "(a direct call of parse_toplevel_items).",
    ref="DESIGN.md section 3, C03",
)

KIND = {"+": "Add", "+.": "AddFloat", "-": "Subtract", "-.": "SubtractFloat", "*": "Multiply", "*.": "MultiplyFloat",
        "/": "Divide", "/.": "DivideFloat", "%": "Modulo", "**": "Exponent", "==": "Equal", "!=": "NotEqual",
        "<": "LessThan", "<=": "LessThanOrEqual", ">": "GreaterThan", ">=": "GreaterThanOrEqual", "&&": "And",
        "||": "Or", "&": "BitwiseAnd", "|": "BitwiseOr", "^": "StringConcat"}
NONASSOC = {"-", "/", "%", "**", "-.", "/.", "<", "<=", ">", ">=", "==", "!="}

INT_POOL = [7, 3, 2, 5, 11, 4, 9, 6, 13, 8, 10, 12]
FLOAT_POOL = [7.5, 2.0, 0.5, 3.0, 1.25, 4.0, 9.5, 6.0, 8.0, 1.5, 2.5, 10.0]
STR_POOL = ["a", "b", "c", "d", "e", "f", "g", "h", "i", "j", "k", "l"]
BOOL_POOL = [True, False, True, True, False, False, True, False, True, False, True, False]


def operand_type_left(op):
    if op in A.INT_OPS:
        return "Int"
    if op in A.FLOAT_OPS:
        return "Float"
    if op in A.BOOL_OPS:
        return "Bool"
    if op in A.STR_OPS:
        return "String"
    return None  # == != : any


def result_type(op, lt):
    if op in ("+", "-", "*", "/", "%", "**", "&", "|"):
        return "Int"
    if op in A.FLOAT_OPS:
        return "Float"
    if op in A.STR_OPS:
        return "String"
    return "Bool"


def mk_operand(t, i):
    if t == "Int":
        return ("Int", INT_POOL[i % len(INT_POOL)])
    if t == "Float":
        return ("Float", FLOAT_POOL[i % len(FLOAT_POOL)])
    if t == "String":
        return ("String", STR_POOL[i % len(STR_POOL)])
    return ("Bool", BOOL_POOL[i % len(BOOL_POOL)])


def typed_chain(ops):
    """Choose operands so that the left-nested reading type-checks whenever some choice does."""
    t0 = operand_type_left(ops[0]) or "Int"
    operands = [mk_operand(t0, 0)]
    acc = t0
    for i, op in enumerate(ops):
        want = operand_type_left(op)
        rt = want if want is not None else acc  # == / != : same type as the accumulated value
        operands.append(mk_operand(rt, i + 1))
        acc = result_type(op, acc)
    return operands


# --- chain representation: {"items": [operand, op, operand, ...]} where operand is a literal value
#     ["lit", type, value] or a parenthesised sub-chain ["par", chain]

def chain_text(ch) -> str:
    parts = []
    for k, it in enumerate(ch["items"]):
        if k % 2 == 1:
            parts.append(it)
        elif it[0] == "lit":
            parts.append(A.lit((it[1], it[2])))
        else:
            parts.append("(" + chain_text(it[1]) + ")")
    return " ".join(parts)


def expected_tree(ch):
    def operand(it):
        if it[0] == "lit":
            t, v = it[1], it[2]
            if t == "Int":
                if v < 0:
                    return ("Parentheses", [("Parens", ("IntLiteral", [v]))])
                return ("IntLiteral", [v])
            if t == "Float":
                if v < 0:
                    return ("Parentheses", [("Parens", ("FloatLiteral", [("float", v)]))])
                return ("FloatLiteral", [("float", v)])
            if t == "String":
                return ("StringLiteral", [v])
            return ("Variable", ["True" if v else "False"])
        return ("Parentheses", [("Parens", expected_tree(it[1]))])
    items = ch["items"]
    acc = operand(items[0])
    for k in range(1, len(items), 2):
        acc = ("BinaryOperator", [acc, KIND[items[k]], operand(items[k + 1])])
    return acc


def model_eval(ch):
    def operand(it):
        if it[0] == "lit":
            return (it[1], it[2])
        return model_eval(it[1])
    items = ch["items"]
    acc = operand(items[0])
    for k in range(1, len(items), 2):
        rhs = operand(items[k + 1])
        acc = A.binop(items[k], acc, rhs)
    return acc


def n_operands(ch):
    return (len(ch["items"]) + 1) // 2


def is_nontrivial(ch):
    ops = ch["items"][1::2]
    n = n_operands(ch)
    if n >= 4:
        return True
    if n == 3 and ops[0] != ops[1] and (ops[0] in NONASSOC or ops[1] in NONASSOC):
        return True
    return any(it[0] == "par" and n_operands(it[1]) >= 2 for it in ch["items"][0::2]) and n >= 3


def shape(tree):
    """Render a tree as fully parenthesised text for messages."""
    if isinstance(tree, tuple) and tree[0] == "BinaryOperator":
        l, op, r = tree[1]
        return f"({shape(l)} {op} {shape(r)})"
    if isinstance(tree, tuple) and tree[0] == "Parentheses":
        return f"P[{shape(tree[1][0][1])}]"
    if isinstance(tree, tuple) and tree[0] in ("IntLiteral", "StringLiteral", "Variable"):
        return repr(tree[1][0])
    if isinstance(tree, tuple) and tree[0] == "FloatLiteral":
        return repr(tree[1][0][1])
    return str(tree)


def grouping_signature(expected, actual, n):
    """Root-cause classifier: how is the chain grouped instead?"""
    def spine_depth_right(t):
        # number of BinaryOperator nodes reached by going right from the root
        d = 0
        while isinstance(t, tuple) and t[0] == "BinaryOperator":
            d += 1
            t = t[1][2]
        return d

    def has_binop_right_child(t):
        if isinstance(t, tuple) and t[0] == "BinaryOperator":
            l, _, r = t[1]
            if isinstance(r, tuple) and r[0] == "BinaryOperator":
                return True
            return has_binop_right_child(l) or has_binop_right_child(r)
        if isinstance(t, tuple) and t[0] == "Parentheses":
            return has_binop_right_child(t[1][0][1])
        return False
    if has_binop_right_child(actual):
        return "chain mis-grouped: an unparenthesised right operand is itself an operator application"
    return "parse tree differs from the left-nested tree"


def check_chain(case, ctx) -> Res:
    """Structural oracle for one chain and behavioural oracle (same case) through the CLI."""
    src = chain_text(case)
    exp = expected_tree(case)
    reply = ctx.hook_call({"op": "ast", "src": src}, timeout=20)
    n = n_operands(case)
    cls = [f"operands={min(n, 8)}{'+' if n > 8 else ''}"]
    if "died" in reply or "panic" in reply:
        return fail("parser crash", f"parsing `{src}` crashed: {reply}")
    if reply["errors"]:
        return fail("chain does not parse", f"`{src}` has parse errors: {reply['errors'][:2]}")
    if len(reply["items"]) != 1:
        return fail("chain parsed as several items", f"`{src}` parsed as {len(reply['items'])} toplevel items")
    tree = rdebug.simp(rdebug.parse(reply["items"][0]))
    try:
        actual = tree[1][0][1][0]  # Expr(ToplevelExpression(expr))
    except Exception:
        return fail("unexpected tree", f"`{src}` -> {tree}")
    if actual != exp:
        return fail(grouping_signature(exp, actual, n),
                    f"`{src}` ({n} operands)\n  parsed as   {shape(actual)}\n  expected    {shape(exp)}",
                    classes=cls)
    return Res(ok=True, nontrivial=is_nontrivial(case), classes=tuple(cls))


def check_chain_behaviour(case, ctx) -> Res:
    """case = {"chains": [chain, ...]} evaluated as one batch through `garden run`."""
    chains = case["chains"]
    snippets = [expr_case(chain_text(c)) for c in chains]
    outs = eval_cases(ctx, snippets)
    nt = 0
    for c, sn, o in zip(chains, snippets, outs):
        if o is None or o.kind == "timeout":
            return Res(ok=True, inconclusive=True, detail=f"no outcome for {sn}")
        if o.kind == "crash":
            return fail(o.msg, f"`{sn}` crashed: {o.msg}")
        try:
            v = model_eval(c)
            exp = ("ok", v)
        except A.GardenError as e:
            exp = ("err", e.kind)
        src = chain_text(c)
        if exp[0] == "ok":
            v = exp[1]
            if o.kind != "ok":
                return fail("chain evaluates differently from its left-nested reading",
                            f"`{src}` raised `{o.msg[:200]}`; left-nested reading gives {v}")
            got = o.out.strip()
            if v[0] == "Float":
                try:
                    same = float(got) == v[1] or (got == "NaN" and v[1] != v[1])
                except ValueError:
                    same = False
            else:
                same = got == A.show(v)
            if not same:
                return fail("chain evaluates differently from its left-nested reading",
                            f"`{src}` printed {got}; left-nested reading gives {A.show(v) if v[0] != 'Float' else v[1]}")
        else:
            if o.kind != "err" or not re.search(A.ERR_PATTERNS[exp[1]], o.msg):
                got = o.out.strip() if o.kind == "ok" else o.msg[:200]
                return fail("chain evaluates differently from its left-nested reading",
                            f"`{src}` gave `{got}`; left-nested reading raises {exp[1]}")
        if is_nontrivial(c):
            nt += 1
    return Res(ok=True, nontrivial=nt > 0, classes=("behaviour-batch",), extra=len(chains))


def lits(operands):
    return [["lit", t, v] for (t, v) in operands]


def mk_chain(ops, operands=None):
    operands = operands or typed_chain(ops)
    items = []
    for i, o in enumerate(lits(operands)):
        items.append(o)
        if i < len(ops):
            items.append(ops[i])
    return {"items": items}


def enum_struct(tier):
    maxlen = 3 if tier == "quick" else 4
    for n in range(1, maxlen + 1):
        for ops in itertools.product(A.ALL_OPS, repeat=n):
            yield mk_chain(list(ops))


def enum_behaviour(tier):
    """All chains of 2..3 operands, and all 4-operand chains whose left-nested reading type-checks (value or
    arithmetic exception); 4-operand chains that are type errors under the left-nested reading cost one process
    each, so quick takes a hashed 5% of them and thorough all."""
    import zlib
    batch = []
    for n in range(1, 4):
        for ops in itertools.product(A.ALL_OPS, repeat=n):
            ch = mk_chain(list(ops))
            if n == 3 and tier == "quick":
                try:
                    model_eval(ch)
                except A.GardenError as e:
                    if e.kind == "type" and zlib.crc32(chain_text(ch).encode()) % 20 != 0:
                        continue
            batch.append(ch)
            if len(batch) == 40:
                yield {"chains": batch}
                batch = []
    if batch:
        yield {"chains": batch}


FAMILIES = [
    ["+", "-", "*", "/", "%", "&", "|"],           # Int -> Int
    ["+", "-", "*", "/", "%", "**", "&", "|"],
    ["+.", "-.", "*.", "/."],                       # Float
    ["&&", "||", "==", "!="],                       # Bool
    ["^"],
    A.ALL_OPS,
    ["-", "/"],
    ["-", "-", "-", "%"],
]


def gen_chain(r, depth=0, maxn=12):
    n = r.int(2, maxn if depth == 0 else 4)
    fam = r.choice(FAMILIES)
    ops = [r.choice(fam) for _ in range(n - 1)]
    # occasionally end an int chain with a comparison and continue with bool ops
    if fam[0] in ("+", "-") and r.bool(0.3) and n >= 3:
        k = r.int(1, n - 2)
        ops[k] = r.choice(["<", "<=", ">", ">=", "==", "!="])
        for j in range(k + 1, n - 1):
            ops[j] = r.choice(["&&", "||", "==", "!="])
    operands = typed_chain(ops)
    # randomise operand values a little (keep types)
    vals = []
    for i, (t, v) in enumerate(operands):
        if t == "Int":
            v = r.choice([7, 3, 2, 5, 11, 1, 0, -4, 9, 100, 64])
        elif t == "Float":
            v = r.choice([7.5, 2.0, 0.5, 3.0, -1.25, 4.0, 0.0])
        elif t == "Bool":
            v = r.bool()
        vals.append((t, v))
    items = []
    for i, (t, v) in enumerate(vals):
        if depth < 2 and r.bool(0.2):
            sub = gen_chain(r, depth + 1)
            # keep the type discipline: only replace where the sub-chain's model type is irrelevant to parsing;
            # type errors are legitimate outcomes compared against the model
            items.append(["par", sub])
        else:
            items.append(["lit", t, v])
        if i < len(ops):
            items.append(ops[i])
    return {"items": items}


def gen_struct(r):
    return gen_chain(r)


def gen_behaviour(r):
    return {"chains": [gen_chain(r, maxn=8) for _ in range(r.int(1, 12))]}


def show(case):
    if "chains" in case:
        return [chain_text(c) for c in case["chains"][:6]]
    return chain_text(case)


SUBS = [
    Sub("structure-exhaustive", check_chain, enum=enum_struct, show=show),
    Sub("behaviour-exhaustive", check_chain_behaviour, enum=enum_behaviour, show=show),
    Sub("structure-random", check_chain, gen=gen_struct, cases={"quick": 3000, "thorough": 60000}, show=show),
    Sub("behaviour-random", check_chain_behaviour, gen=gen_behaviour, cases={"quick": 300, "thorough": 6000}, show=show),
]
