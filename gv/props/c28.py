"""C28 — the LSP server answers every request and never dies."""
from __future__ import annotations

import json
import os
import subprocess
import time

from ..core import GARDEN, Res, Sub, fail, run_garden
from ..gen import text as T
from ..gen import core as G

PROPERTY_ID = "C28"
LEVEL = "exploration"
RULE = ("Stateful generation of client histories (4..30 messages) for the real `garden lsp` process over framed "
        "stdio: initialize (sometimes missing, late or repeated), initialized, didOpen / didChange / didClose of "
        "documents (repository programs, generated programs, mutated programs, random token soup, multi-byte text, "
        "empty text), every request method the server advertises (hover, definition, references, rename, "
        "documentHighlight, documentSymbol, completion, signatureHelp, formatting, codeAction) plus unknown methods, "
        "with positions inside the text, at line / character ends, beyond them, in the middle of a surrogate pair and "
        "huge; URIs of open, closed, never-opened and non-file documents; ids that are numbers or strings; malformed "
        "params (missing, wrong type) and unparseable JSON bodies in correct frames; then shutdown and exit. Oracle: "
        "the process does not crash and exits after `exit`; stdout is a well-framed JSON-RPC stream; every request id "
        "is answered exactly once and no notification is; no response carries an unknown id. Diagnostics oracle: the "
        "last diagnostics published for each still-open document equal (message, severity, line) what `garden check "
        "--json` reports for the same text in a file of the same name. Second population (`imports`): a document whose "
        "URI lies in a scratch directory next to one or two sibling files that exist on disk (good modules, parse "
        "errors behind comment lines of 0..40 ASCII / 2- / 3- / 4-byte characters, a type error, non-ASCII identifiers, "
        "empty), imported with or without `as`, opened, changed and queried; same oracles, `garden check` run in that "
        "directory. Non-trivial = the history contains a request "
        "at an out-of-range or mid-character position, a request on a closed / unknown document, or a malformed "
        "message; distinct = distinct history.")
ASSUMPTIONS = ["frames themselves (Content-Length headers) are always correct: a wrong length desynchronises any "
               "framed stream and is outside the property",
               "an unparseable body has no id, so zero or one response with id null is accepted for it",
               "diagnostics are compared by (message, severity, 1-based start line); columns use different units "
               "(UTF-16 vs bytes) on non-ASCII lines"]
MANIFEST = dict(
    category="exploration",
    technique="stateful (model-based) property testing of message histories against the real language server "
              "process; differential oracle for diagnostics against `garden check`",
    text="~500 (quick) / 20 000 (thorough) generated client histories, each against a fresh `garden lsp` process: "
         "one response per request id, none for notifications, no crash, exit after `exit`, diagnostics equal to "
         "`garden check`.",
    note="Trusted: the framing parser and the bookkeeping of which ids were sent.",
    ref="DESIGN.md section 3, C28",
)

METHODS_POS = ["textDocument/hover", "textDocument/definition", "textDocument/references", "textDocument/rename",
               "textDocument/documentHighlight", "textDocument/completion", "textDocument/signatureHelp"]
METHODS_DOC = ["textDocument/documentSymbol", "textDocument/formatting"]
MULTIBYTE_DOCS = [
    "let s = \"é☃😀\"\nfun f(x: Int): Int { x + 1 }\nf(2)\n",
    "// 😀😀 comment\nlet é = 1\n",
    "fun g(a: String): String { a ^ \"😀\" }\ng(\"☃\").len()\n",
    "\"unterminated 😀",
    "let x = 1\r\nlet y = x\r\n",
]


def gen_doc(r):
    k = r.int(0, 9)
    if k <= 2:
        return r.choice(T.corpus())["src"]
    if k <= 4:
        knobs = G.Knobs(max_stmts=r.choice([3, 6]), max_funs=r.choice([0, 1, 2]), max_depth=2,
                        annotations=r.choice(["full", "none"]))
        return G.generate(r, knobs)[1]
    if k == 5:
        return T.g_mutate(r, r.choice(T.corpus())["src"])
    if k == 6:
        return T.g_tokens(r)
    if k == 7:
        return r.choice(MULTIBYTE_DOCS)
    if k == 8:
        return T.g_text(r)
    return ""


def gen_position(r, text, flags):
    lines = text.split("\n")
    k = r.int(0, 9)
    if k <= 4 and lines:
        ln = r.int(0, len(lines) - 1)
        ch = r.int(0, max(0, len(lines[ln])))
        if any(ord(c) > 0xFFFF for c in lines[ln][:ch + 1]) or any(ord(c) > 127 for c in lines[ln]):
            flags.add("odd")
        return {"line": ln, "character": ch}
    flags.add("odd")
    if k == 5:
        return {"line": len(lines) + r.int(0, 3), "character": 0}
    if k == 6:
        ln = r.int(0, max(0, len(lines) - 1))
        return {"line": ln, "character": len(lines[ln]) + r.int(1, 5)}
    if k == 7:
        return {"line": 2147483647, "character": 2147483647}
    if k == 8:
        # inside a surrogate pair (UTF-16 offsets)
        for ln, l in enumerate(lines):
            col = 0
            for c in l:
                if ord(c) > 0xFFFF:
                    return {"line": ln, "character": col + 1}
                col += 1
        return {"line": 0, "character": 1}
    return {"line": 0, "character": 0}


def gen(r):
    n = r.int(4, 30)
    msgs = []           # [{"kind": "req"|"note"|"raw", "msg": ..., }]
    docs = {}           # uri -> text (open)
    closed = []
    flags = set()
    next_id = [1]
    uris = ["file:///gv_doc_a.gdn", "file:///gv_doc_b.gdn", "file:///dir%20x/gv_c.gdn"]

    def rid():
        i = next_id[0]
        next_id[0] += 1
        return i if r.int(0, 4) else f"s{i}"

    if r.int(0, 9):
        msgs.append({"kind": "req", "msg": {"jsonrpc": "2.0", "id": rid(), "method": "initialize",
                                           "params": {"capabilities": {}, "rootUri": None}}})
        msgs.append({"kind": "note", "msg": {"jsonrpc": "2.0", "method": "initialized", "params": {}}})
    else:
        flags.add("odd")
    for _ in range(n):
        k = r.weighted([(5, "open"), (4, "change"), (2, "close"), (10, "posreq"), (4, "docreq"), (2, "action"),
                        (1, "unknown_req"), (1, "unknown_note"), (2, "malformed"), (1, "reinit"), (1, "badparams"),
                        (1, "note_with_id")])
        if k == "open":
            uri = r.choice(uris)
            text = gen_doc(r)
            docs[uri] = text
            msgs.append({"kind": "note", "msg": {"jsonrpc": "2.0", "method": "textDocument/didOpen", "params": {
                "textDocument": {"uri": uri, "languageId": "garden", "version": 1, "text": text}}}})
        elif k == "change":
            uri = r.choice(uris)
            text = gen_doc(r)
            if uri not in docs:
                flags.add("odd")
            docs[uri] = text
            msgs.append({"kind": "note", "msg": {"jsonrpc": "2.0", "method": "textDocument/didChange", "params": {
                "textDocument": {"uri": uri, "version": r.int(0, 9)}, "contentChanges": [{"text": text}]}}})
        elif k == "close":
            uri = r.choice(uris)
            if uri in docs:
                del docs[uri]
                closed.append(uri)
            else:
                flags.add("odd")
            msgs.append({"kind": "note", "msg": {"jsonrpc": "2.0", "method": "textDocument/didClose",
                                                 "params": {"textDocument": {"uri": uri}}}})
        elif k in ("posreq", "docreq", "action"):
            c = r.int(0, 9)
            if c <= 6 and docs:
                uri = r.choice(sorted(docs))
            elif c == 7:
                uri = r.choice(uris)
                flags.add("odd")
            elif c == 8:
                uri = r.choice(["untitled:Untitled-1", "http://example.invalid/x.gdn", "file:///no/such/file.gdn", ""])
                flags.add("odd")
            else:
                uri = r.choice(uris)
            text = docs.get(uri, "")
            if k == "posreq":
                m = r.choice(METHODS_POS)
                params = {"textDocument": {"uri": uri}, "position": gen_position(r, text, flags)}
                if m == "textDocument/rename":
                    params["newName"] = r.choice(["renamed", "x", "", "é", "let", "a b"])
                if m == "textDocument/references":
                    params["context"] = {"includeDeclaration": r.bool()}
            elif k == "docreq":
                m = r.choice(METHODS_DOC)
                params = {"textDocument": {"uri": uri}}
                if m == "textDocument/formatting":
                    params["options"] = {"tabSize": 2, "insertSpaces": True}
            else:
                m = "textDocument/codeAction"
                params = {"textDocument": {"uri": uri},
                          "range": {"start": gen_position(r, text, flags), "end": gen_position(r, text, flags)},
                          "context": {"diagnostics": []}}
            msgs.append({"kind": "req", "msg": {"jsonrpc": "2.0", "id": rid(), "method": m, "params": params}})
        elif k == "unknown_req":
            msgs.append({"kind": "req", "msg": {"jsonrpc": "2.0", "id": rid(),
                                               "method": r.choice(["workspace/symbol", "nope/unknown", "", "$/x"]),
                                               "params": {}}})
        elif k == "unknown_note":
            msgs.append({"kind": "note", "msg": {"jsonrpc": "2.0", "method": r.choice(
                ["$/cancelRequest", "workspace/didChangeConfiguration", "nope/note", "$/setTrace"]), "params": {"id": 1}}})
        elif k == "note_with_id":
            # a message with an id is a request, whatever its method: the client waits for a response
            flags.add("odd")
            m = r.choice(["initialized", "textDocument/didOpen", "textDocument/didChange", "textDocument/didClose"])
            uri = r.choice(uris)
            params = {}
            if m == "textDocument/didOpen":
                text = gen_doc(r)
                docs[uri] = text
                params = {"textDocument": {"uri": uri, "languageId": "garden", "version": 1, "text": text}}
            elif m == "textDocument/didChange":
                text = gen_doc(r)
                docs[uri] = text
                params = {"textDocument": {"uri": uri, "version": 2}, "contentChanges": [{"text": text}]}
            elif m == "textDocument/didClose":
                docs.pop(uri, None)
                params = {"textDocument": {"uri": uri}}
            msgs.append({"kind": "req", "msg": {"jsonrpc": "2.0", "id": rid(), "method": m, "params": params}})
        elif k == "malformed":
            flags.add("odd")
            msgs.append({"kind": "raw", "body": r.choice(["{", "not json", "[]", "null", "{\"jsonrpc\": \"2.0\"}", "42",
                                                          "{\"method\": 5}", "\"str\"", ""])})
        elif k == "reinit":
            flags.add("odd")
            msgs.append({"kind": "req", "msg": {"jsonrpc": "2.0", "id": rid(), "method": "initialize",
                                               "params": {"capabilities": {}}}})
        elif k == "badparams":
            flags.add("odd")
            m = r.choice(METHODS_POS + METHODS_DOC + ["textDocument/codeAction"])
            params = r.choice([None, [], {}, {"textDocument": 5}, {"textDocument": {"uri": 7}, "position": "x"},
                               {"textDocument": {"uri": uris[0]}, "position": {"line": -1, "character": -1}},
                               {"textDocument": {"uri": uris[0]}, "position": {"line": 1.5, "character": "2"}}])
            msg = {"jsonrpc": "2.0", "id": rid(), "method": m}
            if params is not None:
                msg["params"] = params
            msgs.append({"kind": "req", "msg": msg})
            if r.int(0, 3) == 0:
                bad = r.choice(["textDocument/didOpen", "textDocument/didChange", "textDocument/didClose"])
                msgs.append({"kind": "note", "msg": {"jsonrpc": "2.0", "method": bad,
                                                     "params": r.choice([{}, {"textDocument": {}}, [], "x"])}})
    msgs.append({"kind": "req", "msg": {"jsonrpc": "2.0", "id": rid(), "method": "shutdown"}})
    msgs.append({"kind": "note", "msg": {"jsonrpc": "2.0", "method": "exit"}})
    return {"msgs": msgs, "odd": bool(flags), "open": docs}


ROOT = "@ROOT@"


def gen_imports(r):
    """a document that imports sibling files which exist on disk (good, with a parse error behind comment lines of
    varying byte length, with a type error, non-ASCII), opened and queried; the URI carries a placeholder that
    check() replaces with the scratch directory the siblings are written to"""
    def pad():
        ch = r.choice(["x", "é", "☃", "😀"])
        return "".join("// " + ch * r.int(0, 40) + "\n" for _ in range(r.int(0, 2)))

    def sibling():
        k = r.int(0, 5)
        if k == 0:
            return pad() + "public fun helper(x: Int): Int { x + 1 }\n"
        if k <= 2:
            return pad() + r.choice(["fun f() { 1 + }\n", "public fun helper(x: Int): Int { x + }\n", "fun (\n",
                                     "public fun helper(x: Int): Int { \"é☃\" + }\n"]) + pad()
        if k == 3:
            return pad() + "public fun helper(x: Int): Int { nope }\n"
        if k == 4:
            return pad() + "public fun helper(x: Int): Int { let é = x\n é + 1 }\nfun priv() {}\n"
        return ""

    files = {"sib_a.gdn": sibling()}
    if r.bool():
        files["sib_b.gdn"] = sibling()

    def doc():
        t = ""
        for name in sorted(files):
            if r.int(0, 4):
                t += f'import "./{name}"' + (f" as m{name[4]}" if r.int(0, 2) == 0 else "") + "\n"
        t += pad()
        t += r.choice(["", "helper(1)\n", "let s = \"é☃😀\"\nhelper(2)\n", "nope2\n", "fun g() { helper(3) }\n",
                       "ma::helper(4)\n", "fun (\n"])
        return t

    flags = set()
    uri = f"file:///{ROOT}/main.gdn"
    msgs = [{"kind": "req", "msg": {"jsonrpc": "2.0", "id": 1, "method": "initialize",
                                    "params": {"capabilities": {}, "rootUri": None}}},
            {"kind": "note", "msg": {"jsonrpc": "2.0", "method": "initialized", "params": {}}}]
    text = doc()
    msgs.append({"kind": "note", "msg": {"jsonrpc": "2.0", "method": "textDocument/didOpen", "params": {
        "textDocument": {"uri": uri, "languageId": "garden", "version": 1, "text": text}}}})
    nid = 2
    for _ in range(r.int(1, 6)):
        k = r.int(0, 9)
        if k <= 5:
            params = {"textDocument": {"uri": uri}, "position": gen_position(r, text, flags)}
            m = r.choice(METHODS_POS)
            if m == "textDocument/rename":
                params["newName"] = "renamed_zz"
            msgs.append({"kind": "req", "msg": {"jsonrpc": "2.0", "id": nid, "method": m, "params": params}})
            nid += 1
        elif k <= 7:
            msgs.append({"kind": "req", "msg": {"jsonrpc": "2.0", "id": nid, "method": r.choice(METHODS_DOC),
                                                "params": {"textDocument": {"uri": uri}}}})
            nid += 1
        else:
            text = doc()
            msgs.append({"kind": "note", "msg": {"jsonrpc": "2.0", "method": "textDocument/didChange", "params": {
                "textDocument": {"uri": uri, "version": nid}, "contentChanges": [{"text": text}]}}})
    msgs.append({"kind": "req", "msg": {"jsonrpc": "2.0", "id": nid, "method": "shutdown"}})
    msgs.append({"kind": "note", "msg": {"jsonrpc": "2.0", "method": "exit"}})
    return {"msgs": msgs, "odd": True, "open": {uri: text}, "files": files}


def frame(body: bytes) -> bytes:
    return b"Content-Length: %d\r\n\r\n" % len(body) + body


def parse_frames(out: bytes):
    msgs, i = [], 0
    while i < len(out):
        j = out.find(b"\r\n\r\n", i)
        if j < 0:
            return msgs, out[i:]
        header = out[i:j].decode("ascii", "replace")
        n = None
        for h in header.split("\r\n"):
            if h.lower().startswith("content-length:"):
                try:
                    n = int(h.split(":", 1)[1].strip())
                except ValueError:
                    return msgs, out[i:]
        if n is None or j + 4 + n > len(out):
            return msgs, out[i:]
        body = out[j + 4:j + 4 + n]
        try:
            msgs.append(json.loads(body.decode("utf-8")))
        except (UnicodeDecodeError, json.JSONDecodeError):
            return msgs, out[i:]
        i = j + 4 + n
    return msgs, b""


def run_lsp(payload: bytes, cwd: str, timeout=40.0):
    env = dict(os.environ)
    env["NO_COLOR"] = "1"
    env["RUST_BACKTRACE"] = "0"
    p = subprocess.Popen([GARDEN, "lsp"], cwd=cwd, env=env, stdin=subprocess.PIPE, stdout=subprocess.PIPE,
                         stderr=subprocess.PIPE)
    try:
        out, err = p.communicate(payload, timeout=timeout)
        return p.returncode, out, err.decode("utf-8", "replace"), False
    except subprocess.TimeoutExpired:
        p.kill()
        out, err = p.communicate()
        return p.returncode, out, err.decode("utf-8", "replace"), True


def describe(case, upto=None):
    lines = []
    for m in case["msgs"][:upto]:
        if m["kind"] == "raw":
            lines.append("RAW " + repr(m["body"]))
        else:
            s = json.dumps(m["msg"], ensure_ascii=False)
            lines.append(s if len(s) < 400 else s[:400] + "...")
    return "\n".join(lines)


def check(case, ctx) -> Res:
    d = ctx.scratch.dir()
    root = d if case.get("files") is not None else None
    payload = b""
    for m in case["msgs"]:
        body = m["body"].encode("utf-8") if m["kind"] == "raw" else json.dumps(m["msg"], ensure_ascii=False).encode("utf-8")
        if root:
            body = body.replace(ROOT.encode(), root.strip("/").encode())
        payload += frame(body)
    if case.get("files") is not None:
        # documents that import sibling files: the siblings exist on disk and the URI points into their directory
        for name, ftext in case["files"].items():
            with open(os.path.join(d, name), "w", encoding="utf-8", newline="") as f:
                f.write(ftext)
    rc, out, err, timed_out = run_lsp(payload, d)
    if timed_out:
        # 40 s is generous for ~30 messages, but a loaded machine can exceed it: decide with a budget load cannot explain
        rc, out, err, timed_out = run_lsp(payload, d if root else ctx.scratch.dir(), timeout=240.0)
    cls = ("odd" if case["odd"] else "plain",)
    hist = describe(case)
    if root:
        hist += "".join(f"\n--- file {n} (next to the document)\n{t}" for n, t in sorted(case["files"].items()))
    replies, leftover = parse_frames(out)
    sent_ids = [m["msg"]["id"] for m in case["msgs"] if m["kind"] == "req"]
    answered = [x.get("id") for x in replies if isinstance(x, dict) and "id" in x and "method" not in x]
    if rc not in (0, None) or "panicked at" in err:
        k = len([a for a in answered if a is not None])
        sig = "server died"
        import re as _re
        mm = _re.search(r"panicked at ([^:\n]+):(\d+)", err)
        if mm:
            sig += f": panic {mm.group(1)}:{mm.group(2)}"
        else:
            sig += f": exit status {rc}"
        last = None
        n_req = 0
        for m in case["msgs"]:
            if m["kind"] == "req":
                n_req += 1
                if n_req == k + 1:
                    last = m
        return fail(sig, f"`garden lsp` ended with status {rc} after answering {k} of {len(sent_ids)} requests\n"
                         f"first unanswered request: {json.dumps(last['msg'])[:300] if last else '?'}\n{err[-500:]}\n--- history\n{hist}",
                    classes=cls)
    if timed_out:
        return fail("server still running 240 s after `exit`", f"--- history\n{hist}", classes=cls)
    if leftover.strip():
        return fail("stdout is not a well-framed JSON-RPC stream", f"leftover {leftover[:200]!r}\n--- history\n{hist}", classes=cls)
    for i in sent_ids:
        c = sum(1 for a in answered if a == i and type(a) == type(i))
        if c != 1:
            which = next(m["msg"] for m in case["msgs"] if m["kind"] == "req" and m["msg"]["id"] == i)
            return fail(f"request answered {c} times [{which.get('method')}]",
                        f"request {json.dumps(which)[:300]} got {c} responses\n--- history\n{hist}", classes=cls)
    unknown = [a for a in answered if a is not None and a not in sent_ids]
    if unknown:
        return fail("response with an id that was never sent", f"ids {unknown}\n--- history\n{hist}", classes=cls)
    n_raw = sum(1 for m in case["msgs"] if m["kind"] == "raw")
    nulls = sum(1 for a in answered if a is None)
    if nulls > n_raw:
        return fail("more id-less responses than unparseable messages", f"{nulls} > {n_raw}\n--- history\n{hist}", classes=cls)
    # diagnostics of documents that are open at the end
    last_diag = {}
    for x in replies:
        if isinstance(x, dict) and x.get("method") == "textDocument/publishDiagnostics":
            last_diag[x["params"]["uri"]] = x["params"]["diagnostics"]
    compared = 0
    for uri, text in case["open"].items():
        if root:
            uri = uri.replace(ROOT, root.strip("/"))
        if uri not in last_diag:
            return fail("no diagnostics published for an open document", f"{uri}\n--- history\n{hist}", classes=cls)
        name = uri.rsplit("/", 1)[1]
        sub = root or ctx.scratch.dir()
        path = os.path.join(sub, name)
        with open(path, "w", encoding="utf-8", newline="") as f:
            f.write(text)
        cr = run_garden(["check", "--json", path], cwd=sub, timeout=30)
        if cr.timed_out or cr.crashed:
            continue
        want = []
        for line in cr.out.splitlines():
            if line.startswith("{"):
                try:
                    dd = json.loads(line)
                except json.JSONDecodeError:
                    continue
                want.append((dd["message"], 1 if dd["severity"] == "error" else 2, dd["line_number"]))
        got = [(g["message"], g.get("severity"), g["range"]["start"]["line"] + 1) for g in last_diag[uri]]
        compared += 1
        if "\r" in text:
            # the two sides count lines differently when the text has bare CRs (C29's subject): compare texts only
            want = [(m, sv, 0) for m, sv, _ in want]
            got = [(m, sv, 0) for m, sv, _ in got]
        if sorted(want) != sorted(got):
            only_check = [w for w in want if w not in got]
            only_lsp = [g for g in got if g not in want]
            return fail("published diagnostics differ from `garden check`",
                        f"{uri}\nonly in check: {only_check[:4]}\nonly in LSP: {only_lsp[:4]}\n--- text\n{text[:600]}\n--- history\n{hist[:1500]}",
                        classes=cls)
    return Res(ok=True, nontrivial=case["odd"], classes=cls + (("diagnostics-compared",) if compared else ()))


def show(case):
    return describe(case, 12)[:1500]


SUBS = [Sub("histories", check, gen=gen, cases={"quick": 500, "thorough": 20000}, show=show),
        Sub("imports", check, gen=gen_imports, cases={"quick": 200, "thorough": 8000}, show=show)]
