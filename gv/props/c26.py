"""C26 — test verdicts are independent and the exit status is honest."""
from __future__ import annotations

import re

from ..core import Res, Sub, fail, run_garden

PROPERTY_ID = "C26"
LEVEL = "exploration"
RULE = ("Generated test files with 1..8 tests whose intended verdict is known by construction: passing (assert true, "
        "local lets, helper calls), failing assert, throw, runtime type error, error three calls deep, reaching the "
        "stack limit by unbounded recursion; local variable names are reused across tests and helper functions are "
        "shared; test names have no substring relation so `-n NAME` selects exactly one. Oracle for `garden test f`: "
        "exit status != 0 iff >= 1 intended failure; the summary counts and the set of `Failed: name` lines equal the "
        "intended verdicts; every test run alone via `-n` gives its intended verdict; the file with its tests in a "
        "random other order gives the same verdict per test. Non-trivial = >= 1 failing test that errors at call "
        "depth >= 2 followed by >= 1 passing test; distinct = distinct file.")
ASSUMPTIONS = ["verdicts are intended by construction (each test body is drawn from a pool whose outcome is certain)"]
MANIFEST = dict(
    category="exploration",
    technique="model-based + metamorphic property testing of the test runner (known verdicts; run alone vs together; "
              "permuted order)",
    text="~300 (quick) / 8 000 (thorough) generated test files, each run whole, permuted, and test-by-test through the "
         "real `garden test`; exit status, summary and per-test verdicts must match the constructed verdicts.",
    note="Trusted: the body pool's intended verdicts; parsing of the runner's `Failed:` / `Ran N tests` lines.",
    ref="DESIGN.md section 3, C26",
)

HELPERS = """fun add_one(a: Int): Int { a + 1 }
fun level1(a: Int): Int { let shared_name = a  level2(shared_name) }
fun level2(a: Int): Int { let shared_name = a + 1  level3(shared_name) }
fun level3(a: Int): Int { a / (a - a) }
fun forever(n: Int): Int { forever(n + 1) }
fun ok_deep(a: Int): Int { let shared_name = a  add_one(add_one(shared_name)) }
"""
PASS_BODIES = ["assert(add_one(1) == 2)", "let shared_name = 5\n  assert(shared_name == 5)", "assert(ok_deep(1) == 3)",
               "let xs = [1, 2, 3]\n  assert(xs.len() == 3)", "add_one(1)", "", "let shared_name = \"s\"\n  assert(shared_name.len() == 1)",
               "for shared_name in [1, 2] { assert(shared_name > 0) }"]
FAIL_BODIES = [("assert(add_one(1) == 3)", 0), ("throw(\"boom\")", 0), ("add_one(\"s\")", 1), ("level1(4)", 3),
               ("let shared_name = 1\n  assert(shared_name == 2)", 0), ("let q = [].get(0).or_throw()", 1),
               ("level2(7)\n  assert(True)", 2), ("assert(ok_deep(1) == 4)", 0), ("no_such_function(1)", 0)]
NAMES = ["alpha", "bravo", "charlie", "delta", "echo", "foxtrot", "golf", "hotel", "india", "juliet"]


def gen(r):
    n = r.int(1, 8)
    names = r.sample(NAMES, n)
    tests = []
    for nm in names:
        if r.bool(0.55):
            tests.append([f"t_{nm}_x", r.choice(PASS_BODIES), True, 0])
        else:
            body, depth = r.choice(FAIL_BODIES)
            tests.append([f"t_{nm}_x", body, False, depth])
    perm = r.sample(list(range(n)), n)
    return {"tests": tests, "perm": perm}


def render(tests):
    return HELPERS + "\n" + "\n".join(f"test {nm} {{\n  {body}\n}}" for nm, body, _, _ in tests) + "\n"


def parse(run):
    """The runner prints exactly one of: `Ran 1 test: it passed.` / `Ran N tests: they all passed.` /
    `Ran N test(s): P passed and F failed.` (src/test_runner.rs)."""
    text = run.out + "\n" + run.err
    failed = set(re.findall(r"^Failed: (\w+)", text, re.M))
    m = re.search(r"^Ran (\d+) tests?: (?:it passed|they all passed|(\d+) passed and (\d+) failed)\.$", text, re.M)
    return failed, m


def counts(m):
    """-> (total, passed, failed) from the summary line"""
    total = int(m.group(1))
    if m.group(2) is not None:
        return total, int(m.group(2)), int(m.group(3))
    return total, total, 0


def run_file(ctx, src, extra=()):
    path = ctx.scratch.file(src)
    return run_garden(["test"] + list(extra) + [path], cwd=ctx.scratch.root, timeout=60)


def judge(tests, r, what, src):
    if r.timed_out:
        return Res(ok=True, inconclusive=True, detail=f"{what}: timeout")
    if r.crashed:
        return fail("test runner crashed: " + r.crash_sig(), f"{what}\n{r.err[-300:]}\n--- file\n{src}")
    exp_failed = {nm for nm, _, ok, _ in tests if not ok}
    failed, m = parse(r)
    if (r.rc != 0) != bool(exp_failed):
        return fail("exit status does not reflect the verdicts",
                    f"{what}: exit status {r.rc}, intended failures {sorted(exp_failed)}\n--- output\n{r.out[-400:]}\n--- file\n{src}")
    if failed != exp_failed:
        return fail("per-test verdicts differ from the intended ones",
                    f"{what}: reported failed {sorted(failed)}, intended {sorted(exp_failed)}\n--- output\n{r.out[-500:]}\n--- file\n{src}")
    if m is None:
        return fail("no summary line", f"{what}\n--- output\n{r.out[-300:]}\n--- file\n{src}")
    total, p, f = counts(m)
    if (total, p, f) != (len(tests), len(tests) - len(exp_failed), len(exp_failed)):
        return fail("summary counts differ from the per-test verdicts",
                    f"{what}: summary says {total} tests / {p} passed / {f} failed; intended {len(tests)} / "
                    f"{len(tests) - len(exp_failed)} / {len(exp_failed)}\n--- file\n{src}")
    return None


def check(case, ctx) -> Res:
    tests = [tuple(t) for t in case["tests"]]
    src = render(tests)
    bad = judge(tests, run_file(ctx, src), "whole file", src)
    if bad:
        return bad
    ptests = [tests[i] for i in case["perm"]]
    psrc = render(ptests)
    bad = judge(ptests, run_file(ctx, psrc), "permuted file", psrc)
    if bad:
        return bad
    for t in tests:
        r = run_file(ctx, src, ["-n", t[0]])
        bad = judge([t], r, f"alone (-n {t[0]})", src)
        if bad:
            return bad
    nt = False
    for i, (nm, _, ok, depth) in enumerate(tests):
        if not ok and depth >= 2 and any(o for _, _, o, _ in tests[i + 1:]):
            nt = True
    cls = [f"tests:{len(tests)}", "has-failure" if any(not t[2] for t in tests) else "all-pass"]
    return Res(ok=True, nontrivial=nt, classes=tuple(cls), extra=2 + len(tests))


def show(case):
    return render([tuple(t) for t in case["tests"]])


SUBS = [Sub("verdicts", check, gen=gen, cases={"quick": 300, "thorough": 8000}, show=show)]
