"""C27 — eval-up-to reports the value the expression takes when run."""
from __future__ import annotations

import os
import re

from ..core import Res, Sub, fail, run_garden
from ..gen import core as G

PROPERTY_ID = "C27"
LEVEL = "exploration"
RULE = ("G-core generated programs without assignment, `+=`, while loops or failing operations (so re-evaluating a "
        "top-level expression gives the values of its first evaluation), whose top-level statements are used as they "
        "are or moved into a `test` block. Positions: for 4..6 random value expressions of the top-level code (every "
        "kind: variables, literals, operators, calls, method calls, closures' call sites, if / match values, list / "
        "tuple literals, inside for bodies, match arms and nested blocks; not inside closure bodies, which are "
        "evaluated at their call, not with the top-level expression that creates them) a byte offset whose innermost expression "
        "in the real parser's tree is exactly that expression. Oracle: the same expression is wrapped in dbg() by the "
        "real wrap-in-dbg command and the program is run; the first dbg line gives the value of its first "
        "evaluation. `reftest-eval-up-to` at that offset (a caret comment line is inserted below the line) must "
        "report that value; expressions the run never evaluates are skipped and counted. Second population: a loop "
        "over [0, 1, 2] whose body is a generated tree of if / else-if / else / match / for blocks (every branch taken "
        "in some iteration) with discarded expression statements before, between and after the other statements of "
        "every block; positions are those statements (values nobody uses). Non-trivial = the position is "
        "inside a loop body, match arm, if branch or closure argument, or the value comes from a call; distinct = "
        "distinct (program, offset).")
ASSUMPTIONS = ["dbg() shows a value with the same rendering eval-up-to uses (both Value::display)",
               "programs have no assignment and no failing operation, so the second evaluation that "
               "`reftest-eval-up-to` performs after running the whole program sees the same values as the first",
               "offsets in columns 0-1 cannot be expressed by a caret comment and are skipped"]
MANIFEST = dict(
    category="exploration",
    technique="differential oracle: eval-up-to vs a dbg()-instrumented run of the same generated program, over every "
              "kind of expression position",
    text="~700 (quick) / 25 000 (thorough) expression positions in generated programs; eval-up-to must report the "
         "value the dbg-instrumented run shows for the first evaluation.",
    note="Trusted: wrap-in-dbg (checked separately by C21) and dbg()'s rendering.",
    ref="DESIGN.md section 3, C27",
)


def gen(r):
    knobs = G.Knobs(shadowing=r.bool(), annotations=r.choice(["full", "partial", "none"]), assignment=False,
                    while_loops=False, errors=False, max_stmts=r.choice([4, 7]), max_funs=r.choice([0, 1, 2]),
                    max_depth=r.choice([2, 3]), early_exit=False)
    prog, src = G.generate(r, knobs)
    main_start = prog.main.stmts[0].span[0] if prog.main.stmts and prog.main.stmts[0].span else None
    spans = []
    lambdas = [n.span for n in G.walk_block(prog.main) if isinstance(n, G.E) and n.kind == "lambda" and n.span]
    for n in G.walk_block(prog.main):
        if isinstance(n, G.E) and n.span and n.span[1] > n.span[0] and n.kind not in ("lambda",):
            # a closure body is evaluated when the closure is called, not when the top-level expression that
            # creates it is: eval-up-to has no call to take the arguments from, so such positions are out of scope
            if any(ls <= n.span[0] and n.span[1] <= le for ls, le in lambdas):
                continue
            # calls, method calls, operators and branching expressions are listed three times (picked 3x as often
            # as literals and variables)
            w = 3 if n.kind in ("call", "callv", "callb", "method", "if", "match", "bin", "cmp") else 1
            for _ in range(w):
                spans.append([n.span[0], n.span[1], n.kind])
    picks = [r.int(0, (1 << 16) - 1) for _ in range(r.int(4, 6))]
    return {"src": src, "spans": spans, "picks": picks, "in_test": r.bool(0.25), "main_start": main_start}


def innermost(real, o):
    best = None
    for s, e in real:
        if s <= o < e and (best is None or (e - s) < (best[1] - best[0])):
            best = (s, e)
    return best


def add_caret(src: str, offset: int):
    """insert a `// ^` line below the line holding `offset`; -> text or None when the column is < 2"""
    ls = src.rfind("\n", 0, offset) + 1
    col = offset - ls
    if col < 2:
        return None
    le = src.find("\n", offset)
    if le < 0:
        le = len(src)
        src = src + "\n"
    return src[:le + 1] + "//" + " " * (col - 2) + "^\n" + src[le + 1:]


def check(case, ctx) -> Res:
    src = case["src"]
    if not case["spans"] or case["main_start"] is None:
        return Res(ok=True, classes=("no-toplevel-expression",))
    if case["in_test"]:
        # move the top-level statements into a test block: the dbg oracle still runs the top-level form
        ms = case["main_start"]
        body = src[ms:]
        test_src = src[:ms] + "test generated_test {\n" + body + "\n}\n"
        shift = len("test generated_test {\n")
    a = ctx.hook_call({"op": "ast", "src": src, "positions": True}, timeout=20)
    if "died" in a or "panic" in a or a.get("errors"):
        return Res(ok=True, classes=("generated-program-does-not-parse",))
    real = sorted({(p["s"], p["e"]) for p in a["positions"] if p["k"].startswith("expr") and p["e"] > p["s"]})
    path = ctx.scratch.file(src)
    cls = set(["form:test" if case["in_test"] else "form:toplevel"])
    compared, nt = 0, False
    if case.get("markers"):
        # control-flow programs: each marker text occurs once, on the operator of a discarded statement expression
        case = dict(case)
        spans = []
        for mk in case["markers"]:
            o = src.find(mk)
            node = innermost(real, o) if o >= 0 else None
            if node:
                spans.append([node[0], node[1], "discarded-stmt"])
        case["spans"] = spans
        if not spans:
            return Res(ok=True, classes=("no-marker-found",))
    for pick in case["picks"]:
        s, e, kind = case["spans"][pick * len(case["spans"]) >> 16]
        if (s, e) not in real:
            cls.add("span-not-a-real-node")
            continue
        off = None
        for o in range(s, e):
            if not src[o].isspace() and innermost(real, o) == (s, e) and (o - (src.rfind("\n", 0, o) + 1)) >= 2:
                off = o
                break
        if off is None:
            cls.add("no-addressable-offset")
            continue
        t = run_garden(["reftest-wrap-in-dbg", path, str(s), str(e)], cwd=ctx.scratch.root, timeout=30)
        if t.rc != 0 or t.crashed or t.out == src:
            cls.add("wrap-declined")
            continue
        if not t.out.startswith(src[:s] + "dbg(" + src[s:e] + ")"):
            cls.add("wrap-chose-another-node")
            continue
        dp = ctx.scratch.file(t.out)
        dr = run_garden(["run", dp], cwd=ctx.scratch.root, timeout=30)
        if dr.timed_out or dr.crashed or "Exception:" in dr.err or "Error:" in dr.err:
            cls.add("dbg-run-failed")
            continue
        base = os.path.basename(dp)
        m = re.search(r"^\[" + re.escape(base) + r":\d+:\d+\] (?:.* )?//-> (.*)$", dr.err, re.M)
        if not m:
            cls.add("never-evaluated")
            continue
        expected = m.group(1)
        if case["in_test"]:
            prog_src, prog_off = test_src, off + shift
        else:
            prog_src, prog_off = src, off
        with_caret = add_caret(prog_src, prog_off)
        if with_caret is None:
            cls.add("no-addressable-offset")
            continue
        ep = ctx.scratch.file(with_caret)
        er = run_garden(["reftest-eval-up-to", ep], cwd=ctx.scratch.root, timeout=30)
        text = src[s:e]
        what = f"eval-up-to at byte {off} (`{src[off:off + 20]}`), innermost expression `{text[:60]}` ({kind})"
        if er.timed_out:
            return Res(ok=True, inconclusive=True, detail="eval-up-to timed out")
        if er.crashed:
            return fail("eval-up-to crashed: " + er.crash_sig(), f"{what}\n{er.err[-400:]}\n--- program\n{with_caret}",
                        classes=tuple(cls))
        lines = [ln for ln in er.out.split("\n") if ln.strip()]
        last = lines[-1] if lines else ""
        m2 = re.match(r"^.*" + re.escape(os.path.basename(ep)) + r":\d+: (.*)$", last)
        compared += 1
        ctxt = "loop" if in_construct(src, s, "for ") else "plain"
        nt = nt or kind in ("call", "callv", "callb", "method", "if", "match", "discarded-stmt") or ctxt == "loop"
        cls.add("kind:" + kind)
        if not m2:
            return fail(f"eval-up-to reports no value [{kind}]",
                        f"{what}\nexpected value {expected}\n--- stdout\n{er.out[-300:]}\n--- stderr\n{er.err[-300:]}\n--- program\n{with_caret}",
                        classes=tuple(cls))
        if m2.group(1) != expected:
            return fail(f"eval-up-to reports a different value [{kind}]",
                        f"{what}\ndbg-instrumented run: {expected}\neval-up-to:           {m2.group(1)}\n--- program\n{with_caret}",
                        classes=tuple(cls))
    return Res(ok=True, nontrivial=compared > 0 and nt, classes=tuple(sorted(cls)), extra=max(1, compared))


def gen_ctrl(r):
    """a loop over [0, 1, 2] whose body is a tree of if / else-if / else / match / for blocks (every branch is taken
    in some iteration); every block holds discarded expression statements `helper(i) + K` (K unique) before,
    between and after its other statements, so that positions exist whose value nobody uses in every kind of block"""
    counter = [100]
    markers = []

    def discard(ind):
        counter[0] += 1
        k = counter[0]
        markers.append(f"+ {k}")
        form = r.int(0, 2)
        if form == 0:
            return [f"{ind}helper(i) + {k}"]
        if form == 1:
            return [f"{ind}i + {k}"]
        return [f"{ind}[i].len() + {k}"]

    def block(d, ind):
        out = []
        for _ in range(r.int(1, 3)):
            c = r.int(0, 7) if d > 0 else r.int(0, 2)
            if c <= 1:
                out += discard(ind)
            elif c == 2:
                counter[0] += 1
                out.append(f'{ind}println(string_repr(i * {counter[0]}))')
            elif c == 3:
                out.append(f"{ind}if i == {r.int(0, 2)} {{")
                out += block(d - 1, ind + "  ")
                out.append(f"{ind}}} else {{")
                out += block(d - 1, ind + "  ")
                out.append(f"{ind}}}")
            elif c == 4:
                out.append(f"{ind}if i == 0 {{")
                out += block(d - 1, ind + "  ")
                out.append(f"{ind}}} else if i == 1 {{")
                out += block(d - 1, ind + "  ")
                out.append(f"{ind}}} else {{")
                out += block(d - 1, ind + "  ")
                out.append(f"{ind}}}")
            elif c == 5:
                out.append(f"{ind}match (if i == {r.int(0, 2)} {{ Some(i) }} else {{ None }}) {{")
                out.append(f"{ind}  Some(m) => {{")
                out += block(d - 1, ind + "    ")
                out.append(f"{ind}  }}")
                out.append(f"{ind}  None => {{")
                out += block(d - 1, ind + "    ")
                out.append(f"{ind}  }}")
                out.append(f"{ind}}}")
            elif c == 6:
                out.append(f"{ind}if i > {r.int(0, 1)} {{")
                out += block(d - 1, ind + "  ")
                out.append(f"{ind}}}")
            else:
                counter[0] += 1
                out.append(f"{ind}for j{counter[0]} in [i] {{")
                out += block(d - 1, ind + "  ")
                out.append(f"{ind}}}")
        if r.bool():
            out += discard(ind)
        return out

    body = block(r.choice([1, 2, 3]), "  ")
    src = "fun helper(n: Int): Int { n * 2 }\n\nfor i in [0, 1, 2] {\n" + "\n".join(body) + "\n}\n"
    main_start = src.index("for i in")
    picks = [r.int(0, (1 << 16) - 1) for _ in range(r.int(3, 5))]
    return {"src": src, "spans": [[0, 0, "x"]], "markers": markers, "picks": picks, "in_test": r.bool(0.25),
            "main_start": main_start}


def in_construct(src, offset, keyword):
    """is there an unclosed block opened by a line starting with `keyword` before offset? (indentation heuristic,
    used only to classify cases)"""
    ind = None
    for line in reversed(src[:offset].split("\n")[:-1]):
        st = line.lstrip()
        cur = len(line) - len(st)
        if st.startswith(keyword) and st.rstrip().endswith("{") and (ind is None or cur < ind):
            return True
        if st and (ind is None or cur < ind):
            ind = cur
    return False


def show(case):
    return {"in_test": case["in_test"], "src": case["src"][:600]}


SUBS = [Sub("positions", check, gen=gen, cases={"quick": 160, "thorough": 7000}, show=show),
        Sub("discarded-statements", check, gen=gen_ctrl, cases={"quick": 120, "thorough": 5000}, show=show)]
