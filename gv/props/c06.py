"""C06 — block-local variables never outlive their block."""
from __future__ import annotations

import itertools
import re

from ..core import Res, Sub, fail, run_garden
from ..gen import core as G
from ..model import refinterp as RI
from . import c05

PROPERTY_ID = "C06"
LEVEL = "exploration"
EXHAUSTIVE = True
RULE = ("Exhaustive shape family: context {top level, function, closure} x loop {while, for, for over tuples} x 0..2 wrappers from "
        "{if, if/else-else, match-Some, match-None} x the block on that path holding `let v` (loop body or any "
        "wrapper) x innermost exit {normal, break, continue, return} x probe "
        "{read of the dead `v` after the loop -> must raise `No such variable`, read of a same-named outer variable "
        "-> must print the outer value, read later in the same iteration after the wrapper, the same two reads of the "
        "loop variable itself}; the same family written as top-level code of a JSON-session request (loop {none, "
        "while, for}, where `return` ends the request but the top-level frame lives on) with the read sent as the next "
        "request; plus random G-core "
        "programs (early-exit biased, shadowing on) followed by a read of a name that is only ever bound in dead "
        "blocks. Non-trivial = exit is break/continue/return and nesting depth >= 1 (shape family) or the program "
        "has a loop with an early exit (random); distinct = distinct source text.")
ASSUMPTIONS = ["expected results are known by construction (the probe's binder is dead or is the outer one)"]
MANIFEST = dict(
    category="exploration",
    technique="exhaustive enumeration of a small shape family + random programs, oracle known by construction "
              "(metamorphic twin of the normal-completion program)",
    text="All ~1 700 programs of the shape family are run through `garden run`; each must either print the outer "
         "value or raise `No such variable`, exactly as the normal-completion twin does. ~800 random programs add "
         "arbitrary nesting. Exhaustive over the family only.",
    note="Trusted: the shape generator and the output comparison; nothing inside garden.",
    ref="DESIGN.md section 3, C06",
)

WRAPS = ["if", "else", "some", "none"]
E, S, Block, Binder = G.E, G.S, G.Block, G.Binder
INT, BOOL, STR = G.INT, G.BOOL, G.STR


def build(ctx_kind, loop, wraps, exit_, probe, let_level=None):
    """Build the shape program as a G-core syntax tree; the expected behaviour comes from the reference
    interpreter, in which a read of a dead name (S "probe" without binder) raises `unbound`.

    let_level: in which block on the path the `let v` sits: 0 = the loop body itself, k = inside the k-th
    wrapper; default = innermost. The exit statement is always innermost."""
    if let_level is None:
        let_level = len(wraps)
    flag = Binder("flag", BOOL)
    nothing = Binder("nothing", G.TOption(INT))
    inner_v = Binder("v", INT)
    pname = "it" if probe.endswith("loopvar") else "v"     # loopvar probes read the loop variable after the loop
    has_outer = probe in ("outer", "same-iteration-outer", "outer-loopvar")
    outer_v = Binder(pname, INT) if has_outer else None
    caller_v = Binder(pname, INT) if has_outer else None

    def decl():
        return [S("let", (inner_v, None, E("int", (7,), INT))), S("print", (E("var", (inner_v,), INT),))]

    innermost = []
    if exit_ == "break":
        innermost.append(S("break", ()))
    elif exit_ == "continue":
        innermost.append(S("continue", ()))
    elif exit_ == "return":
        innermost.append(S("return", (E("int", (5,), INT),)))
    stmts = (decl() if let_level == len(wraps) else []) + innermost
    for j in range(len(wraps) - 1, -1, -1):
        w = wraps[j]
        if w == "if":
            stmts = [S("if", (E("var", (flag,), BOOL), Block(stmts), None))]
        elif w == "else":
            stmts = [S("if", (E("callb", ("not", (E("var", (flag,), BOOL),)), BOOL),
                              Block([S("print", (E("str", ("then",), STR),))]), Block(stmts)))]
        elif w == "some":
            pb = Binder("p", INT, kind="pattern")
            stmts = [S("match", (E("some", (E("int", (3,), INT),), G.TOption(INT)),
                                 ((("some", pb), Block(stmts)), (("none",), Block([])))))]
        else:
            pb = Binder("p", INT, kind="pattern")
            stmts = [S("match", (E("var", (nothing,), G.TOption(INT)),
                                 ((("some", pb), Block([])), (("none",), Block(stmts)))))]
        if let_level == j:
            stmts = decl() + stmts
    body = list(stmts)
    if probe.startswith("same-iteration"):
        body.append(S("probe", ("v", outer_v)))
    if loop == "while":
        loop_stmt = S("while", (Binder("i1", INT, kind="counter"), 2, None, Block(body)))
    elif loop == "for-tuple":
        tt = G.TTuple([INT, INT])
        pairs = tuple(E("tuple", ((E("int", (a,), INT), E("int", (b,), INT)),), tt) for a, b in ((1, 2), (3, 4)))
        loop_stmt = S("for", ((Binder("it", INT, kind="loopvar"), Binder("jt", INT, kind="loopvar")),
                              E("list", (pairs,), G.TList(tt)), Block(body)))
    else:
        loop_stmt = S("for", (Binder("it", INT, kind="loopvar"),
                              E("list", ((E("int", (1,), INT), E("int", (2,), INT)),), G.TList(INT)), Block(body)))
    seq = [S("let", (flag, None, E("bool", (True,), BOOL))),
           S("let", (nothing, G.TOption(INT), E("none", (), G.TOption(INT))))]
    if outer_v is not None:
        seq.append(S("let", (outer_v, None, E("int", (100,), INT))))
    seq.append(loop_stmt)
    seq.append(S("probe", (pname, outer_v)))
    if ctx_kind == "top":
        if exit_ == "return":
            return None
        return G.Program([], Block(seq), False)
    main = []
    if ctx_kind == "fun":
        f = G.FunDef("f", [], INT, Block(seq, E("int", (1,), INT)), pure=False)
        funs = [f]
        call = E("call", (f, ()), INT, False)
    else:
        fb = Binder("f", G.TFun([], INT))
        lam = E("lambda", ((), INT, Block(seq, E("int", (1,), INT))), G.TFun([], INT))
        funs = []
        main.append(S("let", (fb, None, lam)))
        call = E("callv", (fb, ()), INT, False)
    if caller_v is not None:
        main.append(S("let", (caller_v, None, E("int", (200,), INT))))
    main.append(S("print", (call,)))
    main.append(S("probe", (pname, caller_v)))
    return G.Program(funs, Block(main), False)


def enum_shapes(tier):
    seen = set()
    for ctx_kind in ("top", "fun", "closure"):
        for loop in ("while", "for", "for-tuple"):
            for d in range(0, 3):
                for wraps in itertools.product(WRAPS, repeat=d):
                    for exit_ in ("normal", "break", "continue", "return"):
                        probes = ["dead", "outer", "same-iteration", "same-iteration-outer"]
                        if loop != "while":
                            probes += ["dead-loopvar", "outer-loopvar"]
                        for probe in probes:
                            for let_level in range(d, -1, -1):
                                if probe.endswith("loopvar") and let_level != d:
                                    continue
                                if probe.startswith("same-iteration") and (not wraps or exit_ != "normal"
                                                                            or let_level == 0):
                                    continue
                                prog = build(ctx_kind, loop, list(wraps), exit_, probe, let_level)
                                if prog is None:
                                    continue
                                out, outcome = RI.Interp().run(prog)
                                src = G.Printer().program(prog)
                                if src in seen:
                                    continue
                                seen.add(src)
                                yield {"src": src, "out": out, "outcome": list(outcome),
                                       "shape": [ctx_kind, loop, list(wraps), exit_, probe, let_level]}


UNBOUND_RE = re.compile(r"^Exception: No such variable `(v|it)`\.", re.M)


def check_shape(case, ctx) -> Res:
    src = case["src"]
    path = ctx.scratch.file(src)
    r = run_garden(["run", path], cwd=ctx.scratch.root, timeout=30)
    ctx_kind, loop, wraps, exit_, probe = case["shape"][:5]
    let_level = case["shape"][5] if len(case["shape"]) > 5 else len(wraps)
    cls = (f"exit:{exit_}", f"depth:{len(wraps)}", f"probe:{probe}", f"ctx:{ctx_kind}",
           f"let-level:{let_level}of{len(wraps)}")
    if r.timed_out:
        return Res(ok=True, inconclusive=True, detail="timeout\n" + src)
    if r.crashed:
        return fail(r.crash_sig(), f"interpreter crashed\n{r.err[-500:]}\n--- program\n{src}", classes=cls)
    exp_out = "".join(l + "\n" for l in case["out"])
    unbound = bool(UNBOUND_RE.search(r.err))
    other_err = bool(re.search(r"^(Exception|Error): ", r.err, re.M)) and not unbound
    want_unbound = case["outcome"][0] == "err" and case["outcome"][1] == "unbound"
    if r.out != exp_out or unbound != want_unbound or other_err:
        sig = leak_signature(exit_, want_unbound, unbound, r.out, exp_out)
        return fail(sig, f"shape {case['shape']}\n--- expected stdout\n{exp_out}--- expected outcome {case['outcome']}\n"
                         f"--- got stdout\n{r.out}--- stderr\n{r.err[:400]}\n--- program\n{src}", classes=cls)
    nt = exit_ != "normal" and len(wraps) >= 1
    return Res(ok=True, nontrivial=nt, classes=cls)


def leak_signature(exit_, want_unbound, unbound, got, exp):
    if want_unbound and not unbound:
        return f"block-local variable still visible after `{exit_}`" if exit_ != "normal" else \
            "block-local variable still visible after normal completion"
    if not want_unbound and not unbound and got != exp:
        return f"outer variable shadowed by a dead block-local after `{exit_}`" if exit_ != "normal" else \
            "wrong value read after normal completion"
    return "unexpected outcome"


# ---- random part: G-core program + a read of a name bound only in dead blocks

def gen_random(r):
    knobs = G.Knobs(shadowing=True, annotations=r.choice(["full", "none"]), early_exit_bias=True, errors=False,
                    max_stmts=r.choice([4, 8]), max_funs=r.choice([0, 1]))
    g = G.Gen(r, knobs)
    prog = g.program()
    top_names = {b.name for b in g.scopes[0].values()} | {f.name for f in prog.funs}
    dead = []
    for node in G.walk_block(prog.main):
        if isinstance(node, G.S):
            if node.kind == "let" and node.args[0].name not in top_names:
                dead.append(node.args[0])
            elif node.kind == "letd":
                dead += [b for b in node.args[0] if b.name not in top_names]
            elif node.kind == "for":
                d = node.args[0]
                dead += [b for b in (d if isinstance(d, tuple) else (d,)) if b.name not in top_names]
    exp = c05.expected(prog)
    pr = G.Printer()
    src = pr.program(prog)
    feats = sorted(G.features(prog))
    if exp is None or not dead or exp[1][0] != "ok":
        return {"src": src, "skip": "no dead local / budget / error", "features": feats}
    b = r.choice(dead)
    src += f"println(string_repr({b.name}))\n"
    return {"src": src, "out": exp[0], "name": b.name, "features": feats}


def check_random(case, ctx) -> Res:
    if case.get("skip"):
        return Res(ok=True, classes=("skipped",))
    src = case["src"]
    path = ctx.scratch.file(src)
    r = run_garden(["run", path], cwd=ctx.scratch.root, timeout=30)
    if r.timed_out:
        return Res(ok=True, inconclusive=True, detail="timeout\n" + src)
    if r.crashed:
        return fail(r.crash_sig(), f"interpreter crashed\n{r.err[-500:]}\n--- program\n{src}")
    exp_out = "".join(l + "\n" for l in case["out"])
    unbound = re.search(r"^Exception: No such variable `" + re.escape(case["name"]) + r"`\.", r.err, re.M)
    feats = set(case["features"])
    if r.out != exp_out or not unbound:
        if r.out.startswith(exp_out) and not unbound and not re.search(r"^(Exception|Error): ", r.err, re.M):
            sig = "block-local variable still visible after its block (random program)"
        else:
            sig = "stdout or outcome differs (random program)"
        return fail(sig, f"expected stdout\n{exp_out}then `No such variable {case['name']}`\n--- got stdout\n{r.out}"
                         f"--- stderr\n{r.err[:400]}\n--- program\n{src}")
    return Res(ok=True, nontrivial="loop-early-exit" in feats, classes=tuple("has:" + f for f in feats))


# ---- top-level blocks left in a session: the top-level frame outlives the request ----------------------------------

def wrap_text(w, inner):
    if w == "if":
        return "if flag { " + inner + " }"
    if w == "else":
        return 'if flag == False { println("then") } else { ' + inner + " }"
    if w == "some":
        return "match Some(3) { Some(p) => { " + inner + " } None => {} }"
    return "match nothing { Some(p) => {} None => { " + inner + " } }"


def enum_session(tier):
    """request 1: top-level code that enters blocks binding `v` (and a loop variable) and leaves them by normal
    completion / break / continue / return; request 2: a read of the name, which is dead or is an outer variable"""
    seen = set()
    for loop in ("none", "while", "for"):
        for d in range(0, 3):
            for wraps in itertools.product(WRAPS, repeat=d):
                for exit_ in ("normal", "break", "continue", "return"):
                    if loop == "none" and (exit_ in ("break", "continue") or d == 0):
                        continue
                    for let_level in range(d, -1, -1):
                        if loop == "none" and let_level == 0:
                            continue
                        for probe in ("dead", "outer") + (("dead-loopvar",) if loop == "for" else ()):
                            decl = "let v = 7 println(string_repr(v))"
                            ex = {"normal": "", "break": " break", "continue": " continue", "return": " return"}[exit_]
                            inner = (decl if let_level == d else "println(\"in\")") + ex
                            for j in range(d - 1, -1, -1):
                                inner = wrap_text(wraps[j], inner)
                                if let_level == j and j > 0:
                                    inner = decl + " " + inner
                            if let_level == 0 and d > 0:
                                inner = decl + " " + inner
                            head = "let flag = True\nlet nothing: Option<Int> = None\n"
                            if probe == "outer":
                                head += "let v = 100\n"
                            if loop == "while":
                                code = head + "let i1 = 0\nwhile i1 < 2 { i1 += 1 " + inner + " }"
                            elif loop == "for":
                                code = head + "for it in [1, 2] { " + inner + " }"
                            else:
                                code = head + inner
                            name = "it" if probe == "dead-loopvar" else "v"
                            key = (code, name)
                            if key in seen:
                                continue
                            seen.add(key)
                            yield {"src": code, "probe": name, "want": "100" if probe == "outer" else None,
                                   "shape": ["session", loop, list(wraps), exit_, probe, let_level]}


def check_session(case, ctx) -> Res:
    from ..session import req_run, run_session, summarize
    loop, wraps, exit_, probe, let_level = case["shape"][1:6]
    cls = (f"exit:{exit_}", f"depth:{len(wraps)}", f"probe:{probe}", "ctx:session-top", f"loop:{loop}")
    res = run_session(ctx, [req_run(case["src"]), req_run(case["probe"])], timeout=60)
    if res.run.timed_out:
        return Res(ok=True, inconclusive=True, detail="timeout\n" + case["src"])
    if res.run.crashed:
        return fail(res.run.crash_sig(), f"session crashed\n{res.run.err[-400:]}\n--- request 1\n{case['src']}", classes=cls)
    rs = res.responses()
    if len(rs) != 2:
        return fail("session answered the wrong number of requests", f"{len(rs)} responses\n--- request 1\n{case['src']}", classes=cls)
    t1 = summarize(rs[0][2])
    if t1[0] != "value":
        return Res(ok=True, inconclusive=True, detail=f"harness program does not run: {t1}\n{case['src']}")
    tag, text, _ = summarize(rs[1][2])
    if case["want"] is None:
        ok = tag == "error" and "No such variable" in (text or "")
    else:
        ok = tag == "value" and text == case["want"]
    if not ok:
        sig = (f"block-local variable still visible in the session after `{exit_}`" if case["want"] is None
               else f"outer variable hidden in the session after `{exit_}`")
        return fail(sig, f"shape {case['shape']}\n--- request 1\n{case['src']}\n--- request 2\n{case['probe']}\n"
                         f"--- expected {'No such variable' if case['want'] is None else case['want']}\n--- got {tag}: {text}",
                    classes=cls)
    return Res(ok=True, nontrivial=exit_ != "normal" and len(wraps) >= 1, classes=cls)


def show(case):
    return case["src"]


SUBS = [
    Sub("shapes", check_shape, enum=enum_shapes, show=show),
    Sub("session-toplevel", check_session, enum=enum_session, show=show),
    Sub("random-dead-read", check_random, gen=gen_random, cases={"quick": 800, "thorough": 20000}, show=show),
]
