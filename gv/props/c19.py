"""C19 — rename changes exactly the occurrences of one variable."""
from __future__ import annotations

import json
import os
import re

from ..core import Res, Sub, fail, run_garden
from ..gen import core as G
from ..session import parse_stream

PROPERTY_ID = "C19"
LEVEL = "exploration"
RULE = ("G-core generated programs with shadowing (same name re-bound in nested and sibling scopes), closures "
        "capturing variables, parameters, loop variables, match-pattern variables, destructuring and assignment. The "
        "generator knows the binding structure: every variable occurrence points at its binder. For 2..4 random "
        "binders per program (locals, parameters, loop / pattern variables) and a random occurrence of each (its "
        "definition or any use), the real `reftest-rename` renames it to a fresh name. Oracles: (1) the identifier "
        "tokens that changed are exactly the binder's definition, its uses and its assignment targets (reference "
        "resolution by the generator); (2) the renamed program parses and prints the same stdout and ends the same "
        "way; (3) the edits returned by the LSP `textDocument/rename` request (real `reftest-lsp`), applied to the "
        "text, give the same program. Non-trivial = another binder with the same name exists in the program "
        "(shadowing or sibling scope) or the binder is captured by a closure; distinct = distinct (program, "
        "occurrence).")
ASSUMPTIONS = ["generated source is ASCII, so LSP character offsets equal byte columns",
               "a rename the command declines (non-zero exit) is counted, not a violation, except when it declines on "
               "the definition or a use of a plain local / parameter"]
MANIFEST = dict(
    category="exploration",
    technique="model-based testing against the generator's own binding structure (reference resolver) + differential "
              "execution + CLI-vs-LSP differential",
    text="~900 (quick) / 30 000 (thorough) renames performed by the real command on generated programs with shadowing "
         "and closures; the changed occurrences must be exactly those of the binder, behaviour must be unchanged and "
         "the LSP edits must agree.",
    note="Trusted: the generator's binding structure and printed spans.",
    ref="DESIGN.md section 3, C19",
)

NEW_NAME = "renamed_zz"
IDENT = re.compile(r"[A-Za-z_][A-Za-z0-9_]*")


def gen(r):
    knobs = G.Knobs(shadowing=True, annotations=r.choice(["full", "partial", "none"]), assignment=r.bool(0.7),
                    while_loops=r.bool(0.5), errors=r.bool(0.3), max_stmts=r.choice([4, 7]),
                    max_funs=r.choice([0, 1, 2]), max_depth=r.choice([2, 3]), closures=True)
    prog, src = G.generate(r, knobs)
    binders = {}          # id -> {"name", "def", "uses": [...], "kind"}
    lambdas = []

    def binder(b):
        if b.id not in binders:
            binders[b.id] = {"name": b.name, "def": b.def_span[0] if b.def_span else None, "uses": [], "kind": b.kind,
                             "captured": bool(b.frozen)}
        return binders[b.id]

    for n in G.walk_program(prog):
        if isinstance(n, G.E) and n.kind in ("var", "callv") and n.span:
            # a call through a variable (`b(1)`) starts with the variable's name
            binder(n.args[0])["uses"].append(n.span[0])
        elif isinstance(n, G.S) and n.kind in ("assign", "addassign") and n.span:
            binder(n.args[0])["uses"].append(n.span[0])
        elif isinstance(n, G.S) and n.kind == "let":
            binder(n.args[0])
        elif isinstance(n, G.S) and n.kind == "letd":
            for b in n.args[0]:
                binder(b)
        elif isinstance(n, G.FunDef):
            for p in n.params:
                binder(p)
    cands = [b for b in binders.values() if b["def"] is not None and b["kind"] in ("local", "param", "loopvar", "pattern")]
    names = {}
    for b in binders.values():
        names[b["name"]] = names.get(b["name"], 0) + 1
    picks = []
    for _ in range(r.int(2, 4)):
        if not cands:
            break
        # prefer shadowed / captured binders
        inter = [b for b in cands if names[b["name"]] > 1 or b["captured"]]
        pool = inter if inter and r.bool(0.7) else cands
        b = pool[r.int(0, len(pool) - 1)]
        occ = [b["def"]] + b["uses"]
        picks.append({"name": b["name"], "def": b["def"], "uses": sorted(set(b["uses"])), "kind": b["kind"],
                      "at": occ[r.int(0, len(occ) - 1)], "shadowed": names[b["name"]] > 1, "captured": b["captured"]})
    return {"src": src, "picks": picks}


def changed_tokens(old: str, new: str, old_name: str):
    """-> (sorted list of old offsets whose identifier token changed to NEW_NAME) or None if the texts differ in any
    other way"""
    to = [(m.start(), m.group(0)) for m in IDENT.finditer(old)]
    tn = [(m.start(), m.group(0)) for m in IDENT.finditer(new)]
    if len(to) != len(tn):
        return None
    out = []
    for (po, a), (_, b) in zip(to, tn):
        if a != b:
            if a != old_name or b != NEW_NAME:
                return None
            out.append(po)
    # everything between identifiers must be identical
    if IDENT.sub("\0", old) != IDENT.sub("\0", new):
        return None
    return out


def outcome(run):
    m = re.search(r"^(Exception|Error): (.*)$", run.err, re.M)
    return (run.rc, m.group(2) if m else None)


def lsp_rename(ctx, src, offset):
    line = src.count("\n", 0, offset)
    col = offset - (src.rfind("\n", 0, offset) + 1)
    uri = "file:///rename_case.gdn"
    msgs = [
        {"jsonrpc": "2.0", "method": "textDocument/didOpen",
         "params": {"textDocument": {"uri": uri, "languageId": "garden", "version": 1, "text": src}}},
        {"jsonrpc": "2.0", "id": 7, "method": "textDocument/rename",
         "params": {"textDocument": {"uri": uri}, "position": {"line": line, "character": col}, "newName": NEW_NAME}},
    ]
    path = ctx.scratch.file("\n".join(json.dumps(m) for m in msgs) + "\n")
    p2 = path[:-4] + ".jsonl"
    os.rename(path, p2)
    r = run_garden(["reftest-lsp", p2], cwd=ctx.scratch.root, timeout=30)
    vals, _ = parse_stream(r.out)
    for v in vals:
        if isinstance(v, dict) and v.get("id") == 7:
            return r, v
    return r, None


def apply_edits(src, edits):
    lines_start = [0]
    for i, ch in enumerate(src):
        if ch == "\n":
            lines_start.append(i + 1)
    spans = []
    for e in edits:
        s = lines_start[e["range"]["start"]["line"]] + e["range"]["start"]["character"]
        t = lines_start[e["range"]["end"]["line"]] + e["range"]["end"]["character"]
        spans.append((s, t, e["newText"]))
    out = src
    for s, t, text in sorted(spans, reverse=True):
        out = out[:s] + text + out[t:]
    return out


def check(case, ctx) -> Res:
    src = case["src"]
    if not case["picks"]:
        return Res(ok=True, classes=("no-binder",))
    path = ctx.scratch.file(src)
    base = run_garden(["run", path], cwd=ctx.scratch.root, timeout=30)
    if base.timed_out or base.crashed:
        return Res(ok=True, inconclusive=True, detail="original does not run cleanly: " + base.crash_sig())
    cls = set()
    nt = False
    done = 0
    for p in case["picks"]:
        at = p["at"]
        where = "definition" if at == p["def"] else "use"
        what = f"rename of {p['kind']} `{p['name']}` at its {where} (byte {at})"
        t = run_garden(["reftest-rename", path, str(at), "--new-name", NEW_NAME], cwd=ctx.scratch.root, timeout=30)
        if t.crashed:
            return fail("rename crashed: " + t.crash_sig(), f"{what}\n{t.err[-300:]}\n--- program\n{src}", classes=tuple(cls))
        if t.rc != 0 or t.out == src:
            cls.add("declined:" + p["kind"])
            if p["kind"] in ("local", "param"):
                return fail(f"rename declines a {p['kind']} at its {where}",
                            f"{what}: exit {t.rc}, {t.out[:100]!r} {t.err[:200]!r}\n--- program\n{src}", classes=tuple(cls))
            continue
        done += 1
        new = t.out
        cls.add(f"renamed:{p['kind']}:{where}")
        if p["shadowed"]:
            cls.add("shadowed-name")
        if p["captured"]:
            cls.add("captured")
        nt = nt or p["shadowed"] or p["captured"]
        expected = sorted(set([p["def"]] + p["uses"]))
        got = changed_tokens(src, new, p["name"])
        if got is None:
            return fail("rename changed something other than identifier tokens of that name",
                        f"{what}\n--- original\n{src}\n--- renamed\n{new}", classes=tuple(cls))
        if got != expected:
            missing = [o for o in expected if o not in got]
            extra = [o for o in got if o not in expected]
            kind = ("misses an occurrence" if missing else "") + (" and " if missing and extra else "") + \
                   ("renames an unrelated occurrence" if extra else "")
            return fail(f"rename {kind} [{p['kind']}, from {where}]",
                        f"{what}\nexpected offsets {expected}\nchanged offsets  {got}\nmissing {missing} extra {extra}\n"
                        f"--- original\n{src}\n--- renamed\n{new}", classes=tuple(cls))
        a = ctx.hook_call({"op": "ast", "src": new}, timeout=20)
        if "died" in a or "panic" in a or a.get("errors"):
            return fail("renamed program does not parse", f"{what}\n{a.get('errors')}\n--- renamed\n{new}", classes=tuple(cls))
        p2 = ctx.scratch.file(new)
        r2 = run_garden(["run", p2], cwd=ctx.scratch.root, timeout=30)
        if r2.timed_out:
            return Res(ok=True, inconclusive=True, detail="renamed program timed out")
        if r2.out != base.out or outcome(r2)[0] != outcome(base)[0] or (outcome(r2)[1] is None) != (outcome(base)[1] is None):
            return fail("renamed program behaves differently",
                        f"{what}\n--- original stdout\n{base.out[:300]}\n--- renamed stdout\n{r2.out[:300]}\n--- renamed stderr\n{r2.err[:300]}\n--- renamed\n{new}",
                        classes=tuple(cls))
        lr, resp = lsp_rename(ctx, src, at)
        if lr.crashed:
            return fail("LSP rename crashed: " + lr.crash_sig(), f"{what}\n{lr.err[-300:]}", classes=tuple(cls))
        if resp is None:
            return fail("LSP rename request got no response", f"{what}\n{lr.out[:300]}", classes=tuple(cls))
        result = resp.get("result")
        if not result or not result.get("changes"):
            return fail("LSP rename returns no edits where the command renames", f"{what}\nresponse {resp}\n--- program\n{src}",
                        classes=tuple(cls))
        edits = list(result["changes"].values())[0]
        lsp_new = apply_edits(src, edits)
        if lsp_new != new:
            return fail("LSP rename edits differ from the command's result",
                        f"{what}\n--- command\n{new}\n--- LSP edits applied\n{lsp_new}", classes=tuple(cls))
    return Res(ok=True, nontrivial=nt and done > 0, classes=tuple(sorted(cls)), extra=max(1, done))


def show(case):
    return {"picks": case["picks"], "src": case["src"][:500]}


SUBS = [Sub("rename", check, gen=gen, cases={"quick": 300, "thorough": 10000}, show=show)]
