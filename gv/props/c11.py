"""C11 — incremental session input equals running it as one program."""
from __future__ import annotations

import json
import re

from ..core import Res, Sub, fail
from ..gen import core as G
from ..session import run_session, summarize
from . import c05

PROPERTY_ID = "C11"
LEVEL = "exploration"
RULE = ("Random error-free G-core programs (function / enum definitions, top-level lets, assignments, loops, matches, "
        "closures, prints) cut at definition and statement boundaries into 1..8 session inputs; every name is defined "
        "once and definitions precede uses; second population: structs, enums, generic structs, methods on them and "
        "on built-in types and constructor functions, defined in a random order over 2..7 inputs (a method may come in an "
        "earlier input than its receiver's type), the last input calling everything. Session A receives the inputs one request at a time, session B (fresh) "
        "receives their concatenation as one request. Oracle: the value reported for the last input in A equals the "
        "value B reports (extracted from B's 'Loaded ..., and the expression evaluated to V.' summary), every request "
        "of A is answered without error, and the concatenated printed output of A equals B's. "
        "Non-trivial = >= 3 inputs, >= 1 definition, and a top-level variable assigned or read in a later input than "
        "the one that declared it; distinct = distinct (inputs) tuple.")
ASSUMPTIONS = ["programs whose reference-interpreter run raises an error are discarded (the property is about error-free "
               "histories); the reference interpreter is used only for that filter, not as the oracle"]
MANIFEST = dict(
    category="exploration",
    technique="metamorphic / differential property testing: one-request-at-a-time session vs single-request session "
              "over randomly split generated programs",
    text="~800 (quick) / 20 000 (thorough) generated programs, each run twice through the real JSON session; the "
         "final reported value and the printed output must not depend on how the input was split.",
    note="Trusted: the regular expression that extracts V from the batch summary; the session driver.",
    ref="DESIGN.md section 3, C11",
)

V_RE = re.compile(r"and the expression evaluated to (.*)\.\Z", re.S)


def stmt_text(s) -> str:
    pr = G.Printer()
    pr.stmt(s)
    return pr.text()


def gen(r):
    knobs = G.Knobs(shadowing=r.bool(0.5), annotations=r.choice(["full", "partial", "none"]), errors=False,
                    early_exit_bias=r.bool(0.3), max_stmts=r.choice([4, 8, 12]), max_funs=r.choice([0, 1, 3]))
    g = G.Gen(r, knobs)
    prog = g.program()
    exp = c05.expected(prog)
    feats = sorted(G.features(prog))
    if exp is None or exp[1][0] != "ok":
        return {"skip": "model error or budget", "inputs": [], "features": feats}
    defs = []
    if prog.uses_color:
        defs.append("enum Color {\n  Red,\n  Green,\n  Custom(Int),\n}")
    for f in prog.funs:
        pr = G.Printer()
        pr.fundef(f)
        defs.append(pr.text())
    stmts = [stmt_text(s) for s in prog.main.stmts]
    # the last input ends in an expression whose value is reported
    tops = [b for b in g.scopes[0].values() if not (isinstance(b.type, tuple) and b.type[0] == "Fun")]
    if tops and r.bool(0.8):
        last_expr = r.choice(tops).name
    else:
        last_expr = str(r.int(1000, 9999))
    stmts.append(last_expr)
    # cut the statements into chunks
    n = len(stmts)
    k = r.int(1, min(6, n))
    cuts = sorted(set(r.sample(range(1, n), min(k - 1, n - 1)))) if n > 1 else []
    chunks, prev = [], 0
    for c in cuts + [n]:
        chunks.append("\n".join(stmts[prev:c]))
        prev = c
    # definitions: each its own input, or merged into the first chunk
    if defs and r.bool(0.7):
        inputs = defs + chunks
    elif defs:
        inputs = ["\n\n".join(defs) + "\n\n" + chunks[0]] + chunks[1:]
    else:
        inputs = chunks
    # does a later input use a variable declared in an earlier one?
    decl_in = {}
    cross = False
    for i, ch in enumerate(chunks):
        for m in re.finditer(r"^let \(?([a-z_0-9, ]+)\)?", ch, re.M):
            for name in m.group(1).replace(" ", "").split(","):
                decl_in.setdefault(name, i)
    for i, ch in enumerate(chunks):
        for name, j in decl_in.items():
            if j < i and re.search(r"\b" + re.escape(name) + r"\b", ch):
                cross = True
    return {"inputs": inputs, "ndefs": len(defs), "cross": cross, "features": feats}


def check(case, ctx) -> Res:
    if case.get("skip"):
        return Res(ok=True, classes=("skipped",))
    inputs = case["inputs"]
    a = run_session(ctx, [{"method": "run", "input": s} for s in inputs], timeout=60)
    whole = "\n\n".join(inputs)
    b = run_session(ctx, [{"method": "run", "input": whole}], timeout=60)
    shown = "\n--- input boundary ---\n".join(inputs)
    for name, sr in (("incremental", a), ("single-request", b)):
        if sr.run.timed_out:
            return Res(ok=True, inconclusive=True, detail=f"{name} session timed out\n{shown}")
        if sr.run.crashed or sr.run.rc != 0:
            return fail(f"{name} session died: {sr.run.crash_sig()}", f"{sr.run.err[-500:]}\n--- inputs\n{shown}")
    ra, rb = a.responses(), b.responses()
    if len(ra) != len(inputs) or len(rb) != 1:
        return fail("wrong number of responses", f"{len(inputs)} inputs -> {len(ra)} responses; single -> {len(rb)}\n{shown}")
    for i, (out, err, resp) in enumerate(ra):
        tag, text, _ = summarize(resp)
        if tag != "value":
            return fail(f"an error-free input was answered with {tag}",
                        f"input #{i + 1} of the incremental session was answered {tag}: {text!r}\n--- inputs\n{shown}")
    tb, textb, _ = summarize(rb[0][2])
    if tb != "value":
        return fail(f"the single-request session answered {tb}", f"{textb!r}\n--- inputs\n{shown}")
    va = summarize(ra[-1][2])[1]
    m = V_RE.search(textb or "")
    vb = m.group(1) if m else textb
    m2 = V_RE.search(va or "")
    va = m2.group(1) if m2 else va
    printed_a = "".join(o for o, _, _ in ra)
    printed_b = rb[0][0]
    if va != vb:
        return fail("last value differs between incremental and single-request sessions",
                    f"incremental: {va!r}\nsingle:      {vb!r}\n--- inputs\n{shown}")
    if printed_a != printed_b:
        return fail("printed output differs between incremental and single-request sessions",
                    f"--- incremental printed\n{printed_a}--- single printed\n{printed_b}--- inputs\n{shown}")
    nt = len(inputs) >= 3 and case["ndefs"] >= 1 and case["cross"]
    cls = [f"inputs:{min(len(inputs), 8)}", "cross-input-variable" if case["cross"] else "no-cross"]
    return Res(ok=True, nontrivial=nt, classes=tuple(cls))


def gen_types(r):
    """structs, enums, methods on them and on built-in types, and functions that build them, defined in a random
    order over 2..7 inputs (a method may be defined in an earlier input than the type of its receiver, a function
    before the type it constructs); the last input calls everything"""
    defs, terms = [], []
    for i in range(r.int(1, 3)):
        k = r.int(0, 3)
        if k == 0:
            defs += [f"struct Sq{i} {{ w: Int }}", f"method twice{i}(this: Sq{i}): Int {{ (this.w * 2) + {i} }}",
                     f"fun mk{i}(n: Int): Sq{i} {{ Sq{i}{{ w: n }} }}"]
            terms.append(f"mk{i}({i + 3}).twice{i}()")
        elif k == 1:
            defs += [f"enum Col{i} {{ Rd{i}, Gr{i}(Int) }}",
                     f"method weight{i}(this: Col{i}): Int {{ match this {{ Rd{i} => 1, Gr{i}(n) => n }} }}"]
            terms.append(f"Gr{i}({i + 4}).weight{i}()")
            terms.append(f"Rd{i}.weight{i}()")
        elif k == 2:
            defs += [f"method inc{i}(this: Int): Int {{ this + {i + 1} }}", f"method shout{i}(this: String): Int {{ this.len() + {i} }}"]
            terms.append(f"{i + 5}.inc{i}()")
            terms.append(f'"ab".shout{i}()')
        else:
            defs += [f"struct Bx{i}<T> {{ v: T }}", f"method unbox{i}<T>(this: Bx{i}<T>): T {{ this.v }}", f"let top{i} = {i + 7}"]
            terms.append(f"Bx{i}{{ v: top{i} }}.unbox{i}()")
    order = r.sample(defs, len(defs))
    final = "(" + ") + (".join(terms) + ")" if len(terms) > 1 else terms[0]
    # cut the definitions into inputs
    inputs, cur = [], []
    for d in order:
        cur.append(d)
        if r.bool(0.55):
            inputs.append("\n".join(cur))
            cur = []
    if cur:
        inputs.append("\n".join(cur))
    inputs.append(final)
    return {"inputs": inputs, "ndefs": len(defs), "cross": True, "types": True}


def show(case):
    return case.get("inputs", [])[:6]


SUBS = [Sub("split-vs-whole", check, gen=gen, cases={"quick": 800, "thorough": 20000}, show=show),
        Sub("types-and-methods", check, gen=gen_types, cases={"quick": 200, "thorough": 6000}, show=show)]
