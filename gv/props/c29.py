"""C29 — LSP positions and edits map exactly onto the document."""
from __future__ import annotations

import itertools

from ..core import Res, Sub, fail

PROPERTY_ID = "C29"
LEVEL = "exploration"
EXHAUSTIVE = True
RULE = ("Exhaustive: every document over the alphabet {a, é (2 bytes), ☃ (3 bytes), 😀 (4 bytes, a UTF-16 surrogate "
        "pair), space, LF, CR} up to length 4 (quick; 5 in thorough) and every character-boundary offset in it; "
        "random documents up to 200 characters. Through the guarded hook: offset -> (line, UTF-16 column) with the "
        "server's offset_to_lsp_position, back with line_char_to_offset; the pair must round-trip to the same offset "
        "and agree with an independent UTF-16 position model in which lines end at LF (Garden's line model); "
        "whole_document_range must end exactly at the end of the document; out-of-range line / character values must "
        "clamp to the line end / document end. Non-trivial = the document has a surrogate-pair character before the "
        "offset, a CR, or no final newline; distinct = distinct (document, offset).")
ASSUMPTIONS = ["the round trip and the edit part are separate obligations; this check covers the position conversion "
               "functions; edits produced by the server are compared with the CLI refactorings in C28/C19-C21 where "
               "those checks drive the server",
               "a bare CR is not a line terminator for Garden (lines are split at LF only); the LSP specification also "
               "treats a bare CR as a line ending, so documents containing a lone CR are reported under a separate, "
               "recorded signature if the server's whole-document range disagrees with the specification"]
MANIFEST = dict(
    category="exploration",
    technique="exhaustive small-scope enumeration (all documents up to length 4/5 over a 7-symbol alphabet, every "
              "boundary offset) + random documents; round-trip and reference-model oracles",
    text="All 2 801 documents up to length 4 (19 608 up to length 5 in thorough) with every boundary offset are "
         "converted offset -> LSP position -> offset by the server's own functions and compared with a UTF-16 model.",
    note="Trusted: the 20-line UTF-16 position model; the hook wrappers (direct calls of the private lsp.rs functions).",
    ref="DESIGN.md section 3, C29",
)

ALPHABET = ["a", "é", "☃", "😀", " ", "\n", "\r"]


def model_position(doc: str, char_index: int):
    """(line, utf16 column) of the position before character number char_index; lines end at LF."""
    before = doc[:char_index]
    line = before.count("\n")
    last = before.rfind("\n")
    seg = before[last + 1:]
    col = sum(2 if ord(c) > 0xFFFF else 1 for c in seg)
    return line, col


def byte_offset(doc: str, char_index: int) -> int:
    return len(doc[:char_index].encode("utf-8"))


def check_doc(case, ctx) -> Res:
    docs = case["docs"]
    nt = 0
    total = 0
    for doc in docs:
        offs = [byte_offset(doc, i) for i in range(len(doc) + 1)]
        r = ctx.hook_call({"op": "lsp_pos", "src": doc, "offsets": offs}, timeout=30)
        if "died" in r or "panic" in r:
            return fail("position conversion crashed", f"{doc!r}: {str(r)[:200]}")
        pos = r["positions"]
        back = ctx.hook_call({"op": "lsp_pos", "src": doc, "line_chars": pos}, timeout=30)
        if "died" in back or "panic" in back:
            return fail("line_char_to_offset crashed", f"{doc!r}: {str(back)[:200]}")
        for i, (o, p, o2) in enumerate(zip(offs, pos, back["offsets"])):
            total += 1
            exp = list(model_position(doc, i))
            if p != exp:
                return fail("offset_to_lsp_position disagrees with the UTF-16 model",
                            f"document {doc!r}, byte offset {o}: server says {p}, model says {exp}")
            if o2 != o:
                return fail("offset -> position -> offset does not round-trip",
                            f"document {doc!r}: offset {o} -> {p} -> {o2}")
            if any(ord(c) > 0xFFFF for c in doc[:i]) or "\r" in doc or not doc.endswith("\n"):
                nt += 1
        # whole document range must end at the end of the document
        wl, wc = r["whole_end"]
        end_line, end_col = model_position(doc, len(doc))
        if [wl, wc] != [end_line, end_col]:
            sig = "whole_document_range does not end at the end of the document"
            if "\r" in doc.replace("\r\n", ""):
                sig += " (document contains a bare CR)"
            return fail(sig, f"document {doc!r}: server says line {wl} character {wc}, the document ends at "
                             f"line {end_line} character {end_col}")
        # clamping: a character value past the line end clamps to the line end; a line past the end clamps to EOF
        lines = doc.split("\n")
        probes, expect = [], []
        for ln, text in enumerate(lines):
            probes.append([ln, 10 ** 6])
            expect.append(len("\n".join(lines[:ln]).encode("utf-8")) + (1 if ln > 0 else 0) + len(text.encode("utf-8")))
        probes.append([len(lines) + 5, 0])
        expect.append(len(doc.encode("utf-8")))
        c = ctx.hook_call({"op": "lsp_pos", "src": doc, "line_chars": probes}, timeout=30)
        if "died" in c or "panic" in c:
            return fail("line_char_to_offset crashed on an out-of-range position", f"{doc!r}")
        if c["offsets"] != expect:
            k = next(i for i in range(len(expect)) if c["offsets"][i] != expect[i])
            return fail("out-of-range position is not clamped to the line / document end",
                        f"document {doc!r}: position {probes[k]} -> offset {c['offsets'][k]}, expected {expect[k]}")
    return Res(ok=True, nontrivial=nt > 0, classes=("docs",), extra=total)


def enum_docs(tier):
    maxlen = 4 if tier == "quick" else 5
    batch = []
    for n in range(0, maxlen + 1):
        for tup in itertools.product(ALPHABET, repeat=n):
            batch.append("".join(tup))
            if len(batch) == 60:
                yield {"docs": batch}
                batch = []
    if batch:
        yield {"docs": batch}


def gen_docs(r):
    docs = []
    for _ in range(r.int(1, 5)):
        n = r.int(0, 200)
        alpha = ALPHABET + ["b", "\n", "\r\n", "\t", "中"]
        docs.append("".join(r.choice(alpha) for _ in range(n)))
    return {"docs": docs}


def show(case):
    return [repr(d) for d in case["docs"][:4]]


SUBS = [
    Sub("all-small-documents", check_doc, enum=enum_docs, show=show),
    Sub("random-documents", check_doc, gen=gen_docs, cases={"quick": 300, "thorough": 10000}, show=show),
]
