"""C30 — nREPL delivers one final `done` per request, after all its output."""
from __future__ import annotations

import threading
import time

from ..core import Res, Sub, fail
from .. import nrepl as N

PROPERTY_ID = "C30"
LEVEL = "exploration"
RULE = ("Randomised histories against the real `garden nrepl` TCP server (a fresh server process per history): 1..2 "
        "concurrent client connections, each with 1..3 sessions and 3..14 requests sent pipelined with generated "
        "gaps of 0 / 1 / 5 / 30 ms, and a generated schedule perturbation of the server (guarded delay points in the "
        "output flusher between taking and sending a chunk, in the session worker before and after it resets the "
        "interrupt flag, in the interrupt handler and before the final messages are sent; each 0 / 2 / 20 / 80 ms): evals that print 0..3000 numbered lines to stdout and "
        "stderr (with and without a trailing newline, so the periodic flusher and the final drain both carry data), "
        "evals that fail after printing, definitions, load-file, completions, lookup, describe, ls-sessions, "
        "interrupt and close of sessions whose requests are all done, close of a session whose requests may still be queued or running (each "
        "still owes exactly one final `done`; its output is not asserted when it ends `interrupted`), requests for unknown / closed sessions, unknown ops, requests without op. "
        "Oracle per connection: every id gets exactly one message whose status contains `done`, and no message with "
        "that id arrives after it; the concatenation of an eval's `out` (`err`) chunks equals exactly the text the "
        "code prints (for failing evals: starts with it), and a successful eval carries its value; a name defined in "
        "one session is unknown in every other session of the same and of the other connection. Non-trivial = the history has two "
        "connections, or an eval printing >= 200 lines, or requests queued behind a running eval; distinct = distinct "
        "history.")
ASSUMPTIONS = ["thread interleavings inside the server are not enumerated, only perturbed (request gaps, output "
               "volume, concurrent connections, delays injected at five named points): a race that needs another "
               "interleaving may be missed",
               "a request is given 120 s to complete; a missing `done` counts as a violation only if the same history misses it in two repetitions as well"]
MANIFEST = dict(
    category="exploration",
    technique="randomised-schedule stateful testing of the real TCP server (model-checking the thread interleavings is "
              "outside this technique family: see DESIGN.md)",
    text="~200 (quick) / 10 000 (thorough) histories with generated request gaps, output volumes and concurrent "
         "connections; one final `done` per id, complete ordered output before it, session isolation.",
    note="Trusted: the bencode client and the arrival-order bookkeeping (one reader thread per connection).",
    ref="DESIGN.md section 3, C30",
)


def gen_conn(r, ci):
    steps = []
    nsess = r.int(1, 3)
    for s in range(nsess):
        steps.append({"k": "clone", "gap": 0})
    n = r.int(3, 14)
    big = False
    queued = False
    prev_eval = False
    for i in range(n):
        k = r.weighted([(8, "eval_print"), (2, "eval_fail"), (3, "define"), (3, "probe"), (1, "load"), (1, "completions"),
                        (1, "lookup"), (1, "describe"), (1, "ls"), (1, "interrupt_idle"), (1, "close"), (1, "close_pending"),
                        (1, "unknown_session"), (1, "unknown_op"), (1, "no_op")])
        gap = r.choice([0, 0, 0, 1, 5, 30])
        st = {"k": k, "gap": gap, "sess": r.int(0, nsess - 1)}
        if k in ("eval_print", "eval_fail"):
            # a busy loop between two prints makes the eval span one or more 100 ms flusher ticks, so that output
            # is pending both at a tick and at the end
            st["spin"] = r.choice([0, 0, 0, 0, 150000, 300000, 500000, 800000])
            st["n_out"] = r.choice([0, 1, 3, 20, 200, 1000, 3000])
            st["n_err"] = r.choice([0, 0, 1, 50])
            st["tail"] = r.bool(0.3)           # a final print without newline
            if st["n_out"] >= 200:
                big = True
            if prev_eval and gap == 0:
                queued = True
            prev_eval = True
        else:
            prev_eval = False
        if k == "define":
            st["name"] = f"secret_c{ci}_s{st['sess']}"
        if k == "probe":
            st["owner_conn"] = r.choice([ci, ci, 1 - ci])
            st["name"] = f"secret_c{st['owner_conn']}_s{st['sess']}"
            st["other"] = r.int(0, nsess - 1)
        steps.append(st)
    return steps, big, queued


def gen(r):
    nconn = r.choice([1, 1, 2])
    conns = []
    big = queued = False
    for ci in range(nconn):
        steps, b, q = gen_conn(r, ci)
        conns.append(steps)
        big, queued = big or b, queued or q
    return {"conns": conns, "nontrivial": nconn > 1 or big or queued, "delays": N.gen_delays(r)}


def eval_code(tag, st, failing):
    lines = []
    exp_out, exp_err = "", ""
    if st["n_out"]:
        lines.append(f'for i in range(0, {st["n_out"]}) {{ println("{tag}-o" ^ string_repr(i)) }}')
        exp_out += "".join(f"{tag}-o{i}\n" for i in range(st["n_out"]))
    if st["n_err"]:
        lines.append(f'for i in range(0, {st["n_err"]}) {{ eprintln("{tag}-e" ^ string_repr(i)) }}')
        exp_err += "".join(f"{tag}-e{i}\n" for i in range(st["n_err"]))
    if st.get("spin"):
        lines.append(f'let spin_i = 0\nwhile spin_i < {st["spin"]} {{ spin_i += 1 }}\nprintln("{tag}-after-spin")')
        exp_out += f"{tag}-after-spin\n"
    if st["tail"]:
        lines.append(f'print("{tag}-tail")')
        exp_out += f"{tag}-tail"
    if failing:
        lines.append("1 / 0")
    else:
        lines.append(f'"{tag}-value"')
    return "\n".join(lines), exp_out, exp_err


def run_conn(port, ci, steps, result):
    """runs one connection's steps; fills result[ci] = dict(sent=[...], msgs=[...], error=None)"""
    out = {"sent": [], "msgs": [], "error": None}
    result[ci] = out
    try:
        c = N.Client(port)
    except OSError as e:
        out["error"] = f"connect failed: {e}"
        return
    sessions = []
    closed = set()
    nid = [0]

    def rid(prefix):
        nid[0] += 1
        return f"c{ci}-{prefix}{nid[0]}"

    try:
        for st in steps:
            if st["gap"]:
                time.sleep(st["gap"] / 1000.0)
            k = st["k"]
            if k == "clone":
                i = rid("clone")
                c.send({"op": "clone", "id": i})
                out["sent"].append({"id": i, "kind": "clone"})
                ok = c.wait_msg(i, lambda m: "new-session" in m, 60)
                if not ok:
                    out["error"] = "timeout: clone got no new-session within 60 s"
                    return
                for m in c.msgs_of(i):
                    if "new-session" in m:
                        sessions.append(m["new-session"])
                continue
            sess = sessions[st["sess"] % len(sessions)] if sessions else "none"
            if k in ("eval_print", "eval_fail"):
                i = rid("eval")
                code, eo, ee = eval_code(i, st, k == "eval_fail")
                c.send({"op": "eval", "id": i, "session": sess, "code": code})
                out["sent"].append({"id": i, "kind": k, "out": eo, "err": ee, "session_closed": sess in closed, "sess": sess,
                                    "value": None if k == "eval_fail" else f'"{i}-value"'})
            elif k == "define":
                i = rid("def")
                c.send({"op": "eval", "id": i, "session": sess, "code": f'let {st["name"]} = "{st["name"]}-content"'})
                out["sent"].append({"id": i, "kind": "define", "session_closed": sess in closed, "sess": sess})
            elif k == "probe":
                # read, from another session of this connection, a name only ever defined in session st["sess"]
                other = sessions[st["other"] % len(sessions)]
                if st["owner_conn"] == ci and other == sess:
                    continue
                i = rid("probe")
                c.send({"op": "eval", "id": i, "session": other, "code": st["name"]})
                out["sent"].append({"id": i, "kind": "probe", "name": st["name"], "session_closed": other in closed, "sess": other})
            elif k == "load":
                i = rid("load")
                c.send({"op": "load-file", "id": i, "session": sess, "file": f'fun loaded_{nid[0]}(): Int {{ 1 }}\nprintln("{i}-loaded")\n',
                        "file-name": "loaded.gdn"})
                out["sent"].append({"id": i, "kind": "load", "sess": sess})
            elif k == "completions":
                i = rid("comp")
                c.send({"op": "completions", "id": i, "session": sess, "prefix": "pri"})
                out["sent"].append({"id": i, "kind": "other", "sess": sess})
            elif k == "lookup":
                i = rid("look")
                c.send({"op": "lookup", "id": i, "session": sess, "sym": "println"})
                out["sent"].append({"id": i, "kind": "other", "sess": sess})
            elif k == "describe":
                i = rid("desc")
                c.send({"op": "describe", "id": i})
                out["sent"].append({"id": i, "kind": "other"})
            elif k == "ls":
                i = rid("ls")
                c.send({"op": "ls-sessions", "id": i})
                out["sent"].append({"id": i, "kind": "other"})
            elif k in ("interrupt_idle", "close") and not c.wait_done(
                    [x["id"] for x in out["sent"] if x.get("sess") == sess], 120):
                out["error"] = "timeout: requests of the session not done within 120 s (before an idle interrupt / close)"
                out["msgs"] = [m for _, m in c.snapshot()]
                return
            elif k == "interrupt_idle":
                # only ever sent to a session with nothing pending: interrupting running evals is C31's subject
                i = rid("int")
                c.send({"op": "interrupt", "id": i, "session": sess})
                out["sent"].append({"id": i, "kind": "other"})
            elif k == "close_pending":
                # close while requests of the session may still be queued or running: each of them must still get
                # exactly one final `done`; what they print before they are stopped is not asserted
                i = rid("closep")
                for x in out["sent"]:
                    if x.get("sess") == sess and x["id"] not in c.done:
                        x["may_be_cut"] = True
                c.send({"op": "close", "id": i, "session": sess})
                closed.add(sess)
                out["sent"].append({"id": i, "kind": "other"})
            elif k == "close":
                i = rid("close")
                c.send({"op": "close", "id": i, "session": sess})
                closed.add(sess)
                out["sent"].append({"id": i, "kind": "other"})
            elif k == "unknown_session":
                i = rid("unk")
                c.send({"op": "eval", "id": i, "session": "no-such-session", "code": "1"})
                out["sent"].append({"id": i, "kind": "other"})
            elif k == "unknown_op":
                i = rid("op")
                c.send({"op": "frobnicate", "id": i})
                out["sent"].append({"id": i, "kind": "other"})
            elif k == "no_op":
                i = rid("noop")
                c.send({"id": i, "code": "1"})
                out["sent"].append({"id": i, "kind": "other"})
        ids = [s["id"] for s in out["sent"]]
        c.wait_done(ids, 120)
        time.sleep(0.15)
        out["msgs"] = [m for _, m in c.snapshot()]
        if c.bad:
            out["error"] = "reply stream is not valid bencode: " + c.bad
    except OSError as e:
        out["error"] = f"socket error: {e}"
        out["msgs"] = [m for _, m in c.snapshot()]
    finally:
        c.close()


def run_history(case, ctx) -> Res:
    d = ctx.scratch.dir()
    srv = N.Server(d, case.get("delays"))
    cls = (f"conns:{len(case['conns'])}",) + tuple("delay:" + k for k in sorted(case.get("delays") or {}))
    if not srv.start():
        srv.stop()
        return Res(ok=True, inconclusive=True, detail="nrepl server did not start")
    try:
        result = {}
        threads = [threading.Thread(target=run_conn, args=(srv.port, ci, steps, result)) for ci, steps in enumerate(case["conns"])]
        for t in threads:
            t.start()
        for t in threads:
            t.join(150)
        alive = srv.alive()
        err_text = srv.stderr_text()
    finally:
        srv.stop()
    hist = f"server delays {case.get('delays')}\n" + "\n".join(f"conn {ci}: " + " | ".join(f"{s['k']}@{s['gap']}ms" + (f"[{s.get('n_out')}/{s.get('n_err')}]" if 'n_out' in s else "")
                                               for s in steps) for ci, steps in enumerate(case["conns"]))
    if not alive or "panicked at" in err_text:
        return fail("nrepl server died", f"{err_text[-600:]}\n--- history\n{hist}", classes=cls)
    defined = {}
    for ci, out in result.items():
        if out["error"]:
            return fail("connection failed: " + out["error"][:60], f"{out['error']}\n--- history\n{hist}", classes=cls)
        msgs = out["msgs"]
        for s in out["sent"]:
            i = s["id"]
            mine = [(k, m) for k, m in enumerate(msgs) if m.get("id") == i]
            dones = [k for k, m in mine if "done" in (m.get("status") or [])]
            what = f"request {i} ({s['kind']})"
            if len(dones) != 1:
                return fail(f"request gets {len(dones)} `done` messages [{s['kind']}]",
                            f"{what}: messages {[m for _, m in mine][:6]}\n--- history\n{hist}", classes=cls)
            if mine[-1][0] != dones[0]:
                return fail(f"a message arrives after the request's `done` [{s['kind']}]",
                            f"{what}: after done came {[m for k, m in mine if k > dones[0]][:3]}\n--- history\n{hist}", classes=cls)
            status = msgs[dones[0]].get("status") or []
            if "unknown-session" in status:
                continue
            if s.get("may_be_cut") and "interrupted" in status:
                continue
            if s["kind"] in ("eval_print", "eval_fail"):
                got_out = "".join(m.get("out", "") for _, m in mine)
                got_err = "".join(m.get("err", "") for _, m in mine)
                if got_out != s["out"]:
                    return fail(f"eval stdout incomplete or out of order [{s['kind']}]",
                                f"{what}: expected {len(s['out'])} chars, got {len(got_out)}; first difference at "
                                f"{first_diff(got_out, s['out'])}: got {got_out[max(0, first_diff(got_out, s['out']) - 20):][:60]!r}\n--- history\n{hist}",
                                classes=cls)
                if s["kind"] == "eval_print" and got_err != s["err"] or not got_err.startswith(s["err"]):
                    return fail(f"eval stderr incomplete or out of order [{s['kind']}]",
                                f"{what}: expected {s['err'][:80]!r}..., got {got_err[:200]!r}\n--- history\n{hist}", classes=cls)
                vals = [m.get("value") for _, m in mine if "value" in m]
                if s["kind"] == "eval_print" and vals != [s["value"]]:
                    return fail("successful eval does not carry its value", f"{what}: values {vals}\n--- history\n{hist}", classes=cls)
                if s["kind"] == "eval_fail" and "eval-error" not in status:
                    return fail("failing eval is not reported as eval-error", f"{what}: status {status}\n--- history\n{hist}", classes=cls)
            if s["kind"] == "probe":
                vals = [m.get("value") for _, m in mine if "value" in m]
                if vals:
                    return fail("a session sees another session's definition",
                                f"{what}: `{s['name']}` evaluated to {vals} in a session that never defined it\n--- history\n{hist}",
                                classes=cls)
    return Res(ok=True, nontrivial=case["nontrivial"], classes=cls)


def check(case, ctx) -> Res:
    res = run_history(case, ctx)
    if res.ok or not ("gets 0 `done`" in res.signature or "timeout" in res.signature):
        return res
    # a request without `done` after 120 s, or a timeout while driving the history: repeat twice before it counts
    again = [run_history(case, ctx) for _ in range(2)]
    if all(not a.ok and a.signature == res.signature for a in again):
        return res
    return Res(ok=True, inconclusive=True, detail="deadline missed once, not on repetition: " + res.signature)


def first_diff(a, b):
    n = min(len(a), len(b))
    for i in range(n):
        if a[i] != b[i]:
            return i
    return n


def show(case):
    return [[f"{s['k']}@{s['gap']}" for s in steps[:14]] for steps in case["conns"]]


SUBS = [Sub("histories", check, gen=gen, cases={"quick": 200, "thorough": 10000}, show=show)]
