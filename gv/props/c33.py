"""C33 — printing a syntax tree and parsing it gives the same tree."""
from __future__ import annotations

import itertools

from ..core import Res, Sub, fail
from ..gen import syntax as S
from ..model import dbgtree as D

PROPERTY_ID = "C33"
LEVEL = "exploration"
RULE = ("Syntax trees generated from the grammar (gv/gen/syntax.py, written from the language documentation and "
        "ast.rs): programs of 1..4 items - functions, methods, tests, structs, enums, imports (with / without "
        "visibility, doc comment, type parameters, parameter and return hints incl. generic, tuple and nested hints), "
        "top-level blocks and expressions; statements let (symbol / destructuring, hint), assignment, += / -=, "
        "return (with / without value), break, continue, while, for, assert; expressions of every kind (literals "
        "incl. i64 limits and escapes, list / tuple (0, 1, n elements) / dict / struct literals, closures, "
        "if / else-if / match (patterns with payload destructuring) / try, calls, method calls, field and namespace "
        "accesses chained up to 3 deep on any operand, left-nested chains of all 21 binary operators, explicit "
        "parentheses anywhere) nested up to depth 4; identifiers include keyword-prefixed names. Each tree is printed "
        "canonically (one statement per line), parsed by the real parser through the hook, and its Debug dump - "
        "positions, ids, value_is_used and comma markers dropped - must equal the generated tree, with no parse "
        "error. Exhaustive sub-check: every expression tree of depth <= 3 over {x, 1} built from 4 operators, "
        "parentheses, call, method call and field access, in 4 statement contexts. Non-trivial = the tree has >= 15 "
        "nodes and contains an operator, parentheses or a postfix chain; distinct = distinct source text.")
ASSUMPTIONS = ["the grammar's trees are those described in gv/gen/syntax.py's header: a right operand / receiver that "
               "is a binary operation exists only inside Parentheses; statements only in blocks / at top level",
               "the Debug-dump reader (gv/model/dbgtree.py) drops only positions, ids, value_is_used and comma "
               "markers; unknown structs are kept verbatim so they cannot compare equal by accident"]
MANIFEST = dict(
    category="exploration",
    technique="grammar-based generation of syntax trees + exhaustive small-tree enumeration; round-trip oracle "
              "parse(print(T)) == T on the real parser's position-free dump",
    text="~3 000 random programs + ~2 900 enumerated small expression trees (quick) / 100 000 + 30 000 (thorough) "
         "printed and re-parsed by the real parser; any parse error or tree difference is a violation.",
    note="Trusted: the canonical printer's claim to implement the documented concrete syntax; the Debug reader.",
    ref="DESIGN.md section 3, C33",
)


def parse_items(ctx, src):
    a = ctx.hook_call({"op": "ast", "src": src})
    if "died" in a or "panic" in a:
        return None, a, "parser crashed: " + str(a.get("panic") or a.get("died"))[:120]
    trees = []
    for dbg in a["items"]:
        trees.append(S.norm(D.tree_of(dbg)))
    return trees, a, None


def compare(ctx, items, cls):
    src = S.p_program(items)
    trees, a, crash = parse_items(ctx, src)
    if crash:
        return fail("canonical text crashes the parser", f"{crash}\n--- source\n{src}", classes=cls)
    if a["errors"]:
        e = a["errors"][0]
        return fail("canonical text does not parse: " + e["message"][:60],
                    f"{a['errors'][:2]}\n--- source\n{src}", classes=cls)
    if trees != items:
        d = D.first_difference(items, trees)
        return fail("re-parsed tree differs from the printed tree", f"first difference (generated != parsed): {d}\n--- source\n{src}",
                    classes=cls)
    return None


def gen(r):
    g = S.Gen(r, max_depth=r.choice([2, 3, 4]))
    items = g.program()
    return {"items": items}


def check(case, ctx) -> Res:
    items = case["items"]
    ks = S.kinds(items)
    cls = tuple(sorted("node:" + k for k in ks & {"BinaryOperator", "Parentheses", "MethodCall", "Call", "DotAccess",
                                                  "NamespaceAccess", "Match", "If", "Try", "FunLiteral", "Let", "ForIn",
                                                  "While", "Return", "StructLiteral", "DictLiteral", "TupleLiteral",
                                                  "Method", "Struct", "Enum", "Import", "Test", "Fun", "Block", "Assert",
                                                  "Assign", "AssignUpdate"}))
    bad = compare(ctx, items, cls)
    if bad:
        return bad
    nt = S.size(items) >= 15 and bool(ks & {"BinaryOperator", "Parentheses", "MethodCall", "Call", "DotAccess",
                                            "NamespaceAccess"})
    return Res(ok=True, nontrivial=nt, classes=cls)


# ---- exhaustive small expression trees --------------------------------------------------------------------------
ATOMS = [["Variable", ["sym", "x"]], ["IntLiteral", 1]]
OPS = ["Add", "Subtract", "Equal", "And"]


def operands(depth):
    """all operand-level trees (no bare binary operation) of the given depth"""
    if depth == 0:
        yield from ATOMS
        return
    yield from ATOMS
    for e in exprs(depth - 1):
        yield ["Parentheses", e]
    for e in operands(depth - 1):
        if e[0] != "DotAccess":          # `x.f()` is a method call; a called field is `(x.f)()`, covered via Parentheses
            yield ["Call", e, []]
        yield ["MethodCall", e, ["sym", "m"], [ATOMS[1]]]
        yield ["DotAccess", e, ["sym", "f"]]


def exprs(depth):
    yield from operands(depth)
    if depth == 0:
        return
    for lhs in exprs(depth - 1):
        for op in OPS:
            for rhs in operands(depth - 1):
                yield ["BinaryOperator", lhs, [op], rhs]


def enum_small(tier):
    depth = 2 if tier == "quick" else 3
    seen = set()
    n = 0
    for e in exprs(depth):
        key = S.p_expr(e)
        if key in seen:
            continue
        seen.add(key)
        ctxs = ["top", "let", "arg", "cond"]
        if tier == "quick" and n % 4:
            ctxs = [ctxs[n % 4]]
        n += 1
        for c in ctxs:
            yield {"expr": e, "ctx": c}


def wrap(e, c):
    if c == "top":
        return [["Expr", ["ToplevelExpression", e]]]
    if c == "let":
        return [["Expr", ["ToplevelExpression", ["Let", ["Symbol", ["sym", "v"]], None, e]]]]
    if c == "arg":
        return [["Expr", ["ToplevelExpression", ["Call", ["Variable", ["sym", "g"]], [e, e]]]]]
    return [["Fun", ["sym", "f"], ["FunInfo", None, ["sym", "f"], [], [], None,
                                  ["Block", [["If", e, ["Block", [e]], None], ["Return", e]]]], ["CurrentFile"]]]


def check_small(case, ctx) -> Res:
    items = wrap(case["expr"], case["ctx"])
    cls = ("ctx:" + case["ctx"],)
    bad = compare(ctx, items, cls)
    if bad:
        return bad
    return Res(ok=True, nontrivial=S.size(case["expr"]) >= 6, classes=cls)


def show(case):
    if "items" in case:
        return S.p_program(case["items"])
    return S.p_program(wrap(case["expr"], case["ctx"]))


SUBS = [
    Sub("random-programs", check, gen=gen, cases={"quick": 3000, "thorough": 100000}, show=show),
    Sub("small-expressions", check_small, enum=enum_small, show=show),
]
