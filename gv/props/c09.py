"""C09 — the JSON session answers every request, in order, and never dies."""
from __future__ import annotations

import json

from ..core import Res, Sub, fail
from ..session import run_session, summarize

PROPERTY_ID = "C09"
LEVEL = "exploration"
RULE = ("Stateful generation of request histories (length 2..25) for the real JSON session against an abstract state "
        "{idle, paused-at-error}: evaluations whose value embeds the request index, definitions, failing code "
        "(error inside nested calls / a finite for body / a plain expression / a violated return type), also followed "
        "at once by 2..4 resumes, parse errors, malformed JSON, valid "
        "JSON that is not a request, eval_up_to / load (also of multi-byte sources at arbitrary byte offsets), "
        "re-definitions of functions, methods, enums and structs (fewer / more / reordered variants and fields, "
        "unknown type hints) while values of the old definition are held in globals, closures and paused frames, "
        "expressions that print / compare / match those held values, and every REPL command except :quit/:trace (documented to "
        "exit / switch the output format), each generated both where it makes sense and where it does not. "
        "Oracle: process exits 0, stdout is a clean JSON stream, exactly one non-`printed` response per request, the "
        "response to every idle-state evaluation carries that request's own index, and a final probe is answered. "
        "Non-trivial = the history contains a command issued in a state where it has no natural meaning "
        "(:skip/:replace/:resume while idle, :abort twice, :test of an unknown name, :type while paused); "
        "distinct = distinct history.")
ASSUMPTIONS = ["`reftest-json-session` drives the same handle_request / eval thread as `garden json` (which cannot be "
               "driven to EOF: it spins on a closed stdin)",
               "error sites are never placed in loop conditions, so :skip/:replace cannot create non-termination"]
MANIFEST = dict(
    category="exploration",
    technique="stateful (model-based) property testing of request histories against the real session process",
    text="~1 200 (quick) / 40 000 (thorough) generated histories, each run in its own session process; every history "
         "must be answered request-for-request and leave the session alive.",
    note="Trusted: the abstract state used only to *choose* requests and to know when a value is predictable; the "
         "oracle itself (count, order, liveness) does not depend on it.",
    ref="DESIGN.md section 3, C09",
)

DEFS = ("fun helper(x: Int): Int { x + 1 }\n"
        "struct Pt { x: Int, label: String }\n"
        "fun held_kind(k: Kind): Int { let kept = k\n  1 / 0 }\n"
        "fun held_pt(p: Pt): Int { let kept = p\n  1 / 0 }\n"
        "fun bad_ret(): NoSuch { 1 }\n"
        "fun wrong_ret(x): Int { x }\n"
        "fun empty_ret(): Int {}\n"
        "method wrong_ret_m(this: String): Int { this }\n"
        "fun bad_param(x: NoSuch): Int { 1 }\n"
        "fun boom(x: Int): Int { let local = x * 2\n  local / 0 }\n"
        "fun outer(x: Int): Int { let o = x\n  boom(o) + 1 }\n"
        "enum Kind { A, B(Int) }\n"
        "test passing_test { assert(helper(1) == 2) }\n"
        "test failing_test { assert(helper(1) == 3) }\n")

FAILING = [
    "outer(3)",
    "boom(1) + 5",
    "1 / 0",
    "for item in [1, 2] { let q = item\n println(string_repr(q))\n boom(q) }",
    "helper(\"s\")",
    "let z = no_such_fn(1)",
    "[1, 2].get(0).or_throw() + [].get(0).or_throw()",
    "assert(helper(1) == 5)",
    "throw(\"stop\")",
    "println(1)",
    "bad_ret()",
    "wrong_ret(\"a\")",
    "Dict[\"a\" => 1, 2 => 3]",
    "Dict[1 => 2]",
    "Path{ p: \"x\" }.exists()",
    "wrong_ret(\"a\") + 1",
    "empty_ret()",
    "\"s\".wrong_ret_m()",
    "(fun(): String { 97 })()",
    "[1].map(fun(v: Int): String { v })",
    "let hinted: NoSuch = 1",
    "let hinted2: List<NoSuch> = [1]",
    "3.twice()",
    "(fun(q: NoSuch) { q })(1)",
    "bad_param(1)",
    "bad_ret() + boom(2)",
    "held_kind(B(4))",
    "held_pt(Pt{ x: 1, label: \"l\" })",
]
# type (re)definitions: values of the old definition stay alive in globals / in a paused frame
REDEFS = ["enum Kind { A }", "enum Kind { A, B(Int), C }", "enum Kind { B(Int) }", "struct Pt { x: Int }",
          "struct Pt { label: String, x: Int, extra: Int }", "struct Kind { a: Int }", "enum Pt { P1, P2 }",
          "fun helper(x: Int): Int { x + 1 }", "fun helper(): String { \"changed\" }", "fun boom(x: Int): Int { x }",
          "fun bad_ret(): NoSuch { 1 }", "fun bad_param(x: NoSuch): Int { 1 }",
          "method twice(this: Int): Int { this * 2 }", "method twice(this: Int): NoSuch { this * 2 }"]
HOLDS = ["let held_a = B(2)", "let held_b = A", "let held_c = Pt{ x: 1, label: \"l\" }", "let held_d = [B(1), A]",
         "let held_e = Some(Pt{ x: 2, label: \"m\" })", "let held_f = fun() { B(9) }", "let held_g = B"]
SHOW_HELD = ["held_a", "held_b", "held_c", "held_d", "held_e", "held_f()", "held_g(1)", "string_repr(held_a)",
             "string_repr(held_c)", "held_c.x", "held_c.label", "held_a == B(2)", "held_d == [B(1), A]",
             "match held_a { B(n) => n, A => 0 }", "match held_b { A => 1, _ => 2 }", "println(held_d)",
             "dbg(held_e)", "3.twice()"]
MB_SRC = "let s\u00e9 = \"\u00e9\u2603\U0001F600\"\nfun lo\u00e9(): Int { 1 }\n// \u00e9\u00e9\u00e9\nlo\u00e9()\n"

PARSE_ERRORS = ["let = ", "fun (", "1 +", "\"unterminated", "match x {", ")", "let x = é"]
NOT_REQUESTS = ["{}", "[]", "1", "\"run\"", "{\"method\": \"nope\"}", "{\"method\": \"run\"}",
                "{\"method\": \"run\", \"input\": 5}", "null"]
MALFORMED = ["{", "not json", "{\"method\": \"run\", \"input\": ", "}{", ""]
INSPECT = [":locals", ":stack", ":fvalues", ":fstmts", ":globals", ":funs", ":types", ":methods", ":methods String",
           ":doc helper", ":doc", ":doc nope", ":source helper", ":source", ":source nope", ":help", ":help abort",
           ":help nope", ":search help", ":search", ":parse 1 + 2", ":parse", ":parse (", ":namespace",
           ":namespaces", ":forget_calls", ":version", ":uptime", ":xyz", ":", ":type 1 + 2", ":type", ":type (",
           ":type helper", ":load", ":load nope.gdn", ":forget nope", ":forget", ":forget_local nope",
           ":forget_local", ":test passing_test", ":test failing_test", ":test nope", ":test"]


def gen(r):
    n = r.int(2, 25)
    reqs = []          # list of ["kind", payload]
    paused = 0         # abstract depth of pending errors (0 = idle)
    aborted_last = False
    odd = False
    held = False
    reqs.append(["run", DEFS])
    for i in range(1, n):
        k = r.weighted([(6, "eval"), (4, "fail"), (3, "resume"), (3, "abort"), (3, "skip"), (3, "replace"),
                        (5, "inspect"), (2, "parse_error"), (1, "malformed"), (1, "not_request"), (2, "define"),
                        (1, "forget"), (1, "eval_up_to"), (1, "load"), (1, "forget_local"), (3, "redef"),
                        (3, "hold"), (4, "show_held"), (1, "load_mb"), (1, "eval_up_to_mb"), (3, "fail_resume_n")])
        if k == "eval":
            reqs.append(["eval", 1000 + i])
        elif k == "fail":
            reqs.append(["run", r.choice(FAILING)])
            paused += 1
            aborted_last = False
            continue
        elif k == "fail_resume_n":
            # a failing evaluation followed at once by 2..4 resumes: every error path has to leave the frame in a
            # state from which the same step can be retried again and again
            reqs.append(["run", r.choice(FAILING)])
            for _ in range(r.int(2, 4)):
                reqs.append(["run", ":resume"])
            paused += 1
        elif k == "resume":
            if paused == 0:
                odd = True
            reqs.append(["run", ":resume"])
        elif k == "abort":
            if paused == 0 and aborted_last:
                odd = True
            reqs.append(["run", ":abort"])
            paused = 0
            aborted_last = True
            continue
        elif k == "skip":
            if paused == 0:
                odd = True
            reqs.append(["run", ":skip"])
            paused = max(0, paused - 1)
        elif k == "replace":
            if paused == 0:
                odd = True
            reqs.append(["run", ":replace " + r.choice(["7", "helper(1)", "\"s\"", "(", ""])])
            paused = max(0, paused - 1)
        elif k == "inspect":
            c = r.choice(INSPECT)
            if (c.startswith(":type") and paused) or c in (":test nope", ":forget nope"):
                odd = True
            reqs.append(["run", c])
            if c.startswith(":test failing"):
                paused += 1
        elif k == "parse_error":
            reqs.append(["run", r.choice(PARSE_ERRORS)])
        elif k == "malformed":
            reqs.append(["raw", r.choice(MALFORMED)])
        elif k == "not_request":
            reqs.append(["raw", r.choice(NOT_REQUESTS)])
        elif k == "define":
            reqs.append(["run", f"fun extra_{i}(): Int {{ {2000 + i} }}"])
        elif k == "forget":
            reqs.append(["run", ":forget " + r.choice(["helper", "boom", f"extra_{i}", "Kind"])])
        elif k == "forget_local":
            reqs.append(["run", ":forget_local " + r.choice(["local", "o", "q", "x"])])
        elif k == "eval_up_to":
            src = "let m = helper(4)\nm + 1\n"
            reqs.append(["eval_up_to", [src, r.choice([8, 12, 0, 23, 5000])]])
        elif k == "redef":
            reqs.append(["run", r.choice(REDEFS)])
            if held:
                odd = True
        elif k == "hold":
            reqs.append(["run", r.choice(HOLDS)])
            held = True
        elif k == "show_held":
            reqs.append(["run", r.choice(SHOW_HELD)])
        elif k == "load_mb":
            nb = len(MB_SRC.encode("utf-8"))
            reqs.append(["load", [MB_SRC, r.int(0, nb + 2), r.int(0, nb + 2)]])
        elif k == "eval_up_to_mb":
            nb = len(MB_SRC.encode("utf-8"))
            reqs.append(["eval_up_to", [MB_SRC, r.int(0, nb + 2)]])
        elif k == "load":
            src = f"fun loaded_{i}(): Int {{ {i} }}\n"
            reqs.append(["load", [src, r.choice([0, 3]), r.choice([len(src), 5, 9999])]])
        aborted_last = False
    return {"requests": reqs, "odd": odd}


def to_line(req, idx):
    kind, p = req
    if kind == "raw":
        return p
    if kind == "eval":
        return json.dumps({"method": "run", "input": f"{p} + 0"})
    if kind == "run":
        return json.dumps({"method": "run", "input": p})
    if kind == "eval_up_to":
        return json.dumps({"method": "eval_up_to", "path": "probe.gdn", "src": p[0], "offset": p[1]})
    if kind == "load":
        return json.dumps({"method": "load", "path": "loaded.gdn", "input": p[0], "offset": p[1], "end_offset": p[2]})
    raise ValueError(kind)


def lines_of(case):
    # blank raw lines are dropped by the reftest driver (it filters empty lines): do not count them as requests
    reqs = [q for q in case["requests"] if not (q[0] == "raw" and q[1] == "")]
    reqs = reqs + [["run", ":abort"], ["eval", 424242]]
    return reqs, [to_line(q, i) for i, q in enumerate(reqs)]


def check(case, ctx) -> Res:
    reqs, lines = lines_of(case)
    sr = run_session(ctx, None, raw_lines=lines, timeout=60)
    hist = "\n".join(lines)
    cls = ["odd-command" if case["odd"] else "plain"]
    if sr.run.timed_out:
        return Res(ok=True, inconclusive=True, detail="session did not finish in 60 s\n" + hist)
    answers = sr.responses()
    if sr.run.crashed or sr.run.rc != 0:
        # which request was being processed?
        k = len(answers)
        culprit = lines[k] if k < len(lines) else "?"
        sig = "session died: " + sr.run.crash_sig()
        # :skip / :replace edit the evaluator's stacks by design (see their :help text); a later step that finds
        # the value stack empty is one recorded root cause, recognised by the panic text (all of eval.rs's `Popped an empty value ...` messages are
        # pops of that stack) AND such a command earlier
        earlier = [q[1] for q in reqs[:k + 1] if q[0] == "run" and isinstance(q[1], str)]
        if "Popped an empty value" in sr.run.err and any(c == ":skip" or c.startswith(":replace") for c in earlier):
            sig = "session died: empty value stack after :skip/:replace"
        elif "`for` loop index should always be an `Int`" in sr.run.err and any(
                c == ":skip" or c.startswith(":replace") for c in earlier):
            # same root cause inside a `for` body: the stack is not empty (the loop keeps its index and sequence
            # there), so the step that misses the skipped value pops the loop's bookkeeping instead
            sig = "session died: `for` loop bookkeeping popped as an operand after :skip/:replace"
        return fail(sig, f"the session process died (exit {sr.run.rc}) while handling request #{k}: {culprit}\n"
                         f"{sr.run.err[-700:]}\n--- history\n{hist}", classes=cls)
    if sr.leftover.strip():
        return fail("stdout is not a clean JSON stream", f"leftover: {sr.leftover[:300]!r}\n--- history\n{hist}",
                    classes=cls)
    if len(answers) != len(lines):
        return fail("number of responses differs from number of requests",
                    f"{len(lines)} requests, {len(answers)} responses\n--- history\n{hist}", classes=cls)
    # order: every evaluation that ran while nothing was pending must report its own index.
    # (the abstract state is not trusted for that: an evaluation is only judged when the reply is a value)
    for (out, err, resp), q in zip(answers, reqs):
        if q[0] == "eval":
            tag, text, _ = summarize(resp)
            if tag == "value" and text != str(q[1]):
                return fail("response does not belong to its request",
                            f"request `{q[1]} + 0` was answered with value {text!r}\n--- history\n{hist}", classes=cls)
    tag, text, _ = summarize(answers[-1][2])
    if (tag, text) != ("value", "424242"):
        return fail("final probe after :abort not answered with its value",
                    f"probe `424242 + 0` after `:abort` answered {tag}: {text!r}\n--- history\n{hist}", classes=cls)
    return Res(ok=True, nontrivial=bool(case["odd"]), classes=cls)


def show(case):
    return [q[1] if q[0] != "eval" else f"{q[1]} + 0" for q in case["requests"][1:12]]


SUBS = [Sub("histories", check, gen=gen, cases={"quick": 1200, "thorough": 40000}, show=show)]
