"""C07 — resuming after a runtime error reproduces the same error."""
from __future__ import annotations

import itertools
import json

from ..core import Res, Sub, fail
from ..session import run_session, summarize
from ..model import arith as A

PROPERTY_ID = "C07"
LEVEL = "exploration"
EXHAUSTIVE = True
RULE = ("Enumerated catalogue of runtime error sites (every binary operator with a wrong-typed left / right operand, "
        "arithmetic exceptions, `+=`, user / closure / built-in function calls with wrong arity or wrong-typed "
        "arguments, built-in and prelude methods likewise, failed let hints, tuple destructuring mismatches, non-Bool "
        "conditions, for over a non-list, match on a non-enum / without a matching case, struct literal and field "
        "errors, unknown variable / method, assert, throw, or_throw) x 7 embedding contexts (plain, argument of an "
        "outer call, second argument, inside a function with locals, inside a for body, list element, right operand). "
        "Each is run in the real JSON session followed by 1..3 `:resume` and `:abort`. Oracle: every resume fails "
        "again with the identical message and position, equal to the first failure's. Random sub-check: random "
        "site/context/resume-count combinations with random distinct argument values. Non-trivial = the failing step "
        "had at least one operand/argument value to put back (anything except unknown-variable and throw of a "
        "literal); distinct = distinct input text.")
ASSUMPTIONS = ["the first failure is reported by err_to_response and later ones by eval_to_response, which word "
               "assertion failures differently; messages are compared after that documented normalisation"]
MANIFEST = dict(
    category="exploration",
    technique="exhaustive catalogue x context enumeration + random histories; metamorphic oracle (resume is idempotent "
              "on the reported error)",
    text="~1 900 catalogue histories (quick) run against the real session; each `:resume` must reproduce the same "
         "error text and position. Exhaustive over the catalogue only; the catalogue is hand-enumerated from the "
         "language's error kinds, not derived from eval.rs.",
    note="Trusted: the normalisation of the two response wordings; the session driver.",
    ref="DESIGN.md section 3, C07",
)

DEFS = """fun helper(x: Int): Int { x + 1 }
fun helper2(a: Int, b: Int): Int { a + b }
fun takes_str(s: String): Int { s.len() }
fun no_args(): Int { 41 }
fun bad_param(x: NoSuchType): Int { 1 }
fun bad_param2(a: Int, b: NoSuchType): Int { a }
fun bad_ret(): NoSuchType { 1 }
method bad_meth(this: Int, o: NoSuchType): Int { 1 }
method bad_meth_ret(this: Int): NoSuchType { 1 }
struct Point { x: Int, label: String }
enum Shape { Dot, Circle(Int) }
fun in_fun(p: Int): Int {
  let local_a = p + 100
  let local_b = "loc"
  let r = SITE_PLACEHOLDER
  local_a
}
"""

WRONG = {"Int": ['"s1"', "True", "[7]"], "Float": ["3", '"s2"'], "Bool": ["5", '"s3"'], "String": ["6", "False"]}
GOOD = {"Int": ["11", "12"], "Float": ["1.5", "2.5"], "Bool": ["True", "False"], "String": ['"ga"', '"gb"']}


def op_type(op):
    if op in A.INT_OPS:
        return "Int"
    if op in A.FLOAT_OPS:
        return "Float"
    if op in A.BOOL_OPS:
        return "Bool"
    if op in A.STR_OPS:
        return "String"
    return None


def catalogue():
    """-> list of (label, expression source, has_saved_values)"""
    sites = []
    for op in A.ALL_OPS:
        t = op_type(op)
        if t is None:
            continue
        for w in WRONG[t][:2]:
            sites.append((f"op {op} wrong-left", f"{w} {op} {GOOD[t][0]}", True))
            sites.append((f"op {op} wrong-right", f"{GOOD[t][1]} {op} {w}", True))
    sites += [
        ("div-zero", "13 / 0", True), ("rem-zero", "14 % 0", True), ("pow-neg", "2 ** (-3)", True),
        ("pow-overflow", "9 ** 99", True), ("floatdiv-zero", "1.5 /. 0.0", True),
        ("user arity few", "helper2(21)", True), ("user arity many", "helper(22, 23)", True),
        ("user arity zero", "no_args(24)", True), ("user param type", 'helper("s4")', True),
        ("user param type 2nd", 'helper2(25, "s5")', True), ("user ret", "takes_str(26)", True),
        ("closure arity", "clo(27, 28)", True), ("closure param", 'clo("s6")', True),
        ("call non-function", "29(30)", True), ("call non-function var", "local_str(31)", True),
        ("println wrong type", "println(32)", True), ("println arity", 'println("a", "b")', True),
        ("print wrong type", "print(33)", True), ("eprintln wrong type", "eprintln(34)", True),
        ("string_repr arity", "string_repr()", False), ("string_repr arity 2", "string_repr(35, 36)", True),
        ("not wrong type", "not(37)", True), ("throw wrong type", "throw(38)", True),
        ("range wrong type", 'range("s7", 39)', True), ("range wrong 2nd", 'range(40, "s8")', True),
        ("max wrong", 'max(41, "s9")', True), ("dbg arity", "dbg()", False),
        ("str.len arity", '"abc".len(42)', True), ("list.get type", '[43, 44].get("s10")', True),
        ("list.get arity", "[45].get()", True), ("list.append arity", "[46].append()", True),
        ("substring type 1", '"abcdef".substring("s11", 2)', True),
        ("substring type 2", '"abcdef".substring(1, "s12")', True),
        ("substring range", '"abcdef".substring(4, 2)', True), ("substring neg", '"abcdef".substring(-1, 2)', True),
        ("str.contains type", '"abc".contains(47)', True), ("str.split type", '"abc".split(48)', True),
        ("str.join type", '",".join(49)', True), ("str.index_of type", '"abc".index_of(50)', True),
        ("str concat type", '"abc" ^ 51', True), ("list.contains arity", "[52].contains()", True),
        ("list.map type", "[53].map(54)", True), ("list.filter type", "[55].filter(56)", True),
        ("list.slice type", '[57, 58].slice("s13", 1)', True), ("dict.get type", 'Dict["k" => 59].get(60)', True),
        ("dict.set arity", 'Dict["k" => 61].set("z")', True), ("int.as_float arity", "62.as_float(63)", True),
        ("option.or_value arity", "Some(64).or_value()", True), ("no such method", "65.frobnicate()", True),
        ("no such method on str", '"abc".frobnicate(66)', True), ("method on unit", "Unit.len()", True),
        ("let hint", 'let hinted: Int = "s14"', True), ("let hint list", "let hinted2: List<String> = [67]", True),
        ("destructure count", "let (da, db) = (68, 69, 70)", True), ("destructure non-tuple", "let (dc, dd) = 71", True),
        ("if non-bool", "if 72 { 1 } else { 2 }", True), ("while non-bool", 'while "s15" { 1 }', True),
        ("for non-list", "for fv in 73 { 1 }", True), ("for destructure", "for (fa, fb) in [74] { 1 }", True),
        ("match non-enum", "match 75 { Some(m) => { 1 } None => { 2 } }", True),
        ("match no case", "match Circle(76) { Dot => { 1 } }", True),
        ("struct field type", 'Point{ x: "s16", label: "l" }', True), ("struct missing field", "Point{ x: 77 }", True),
        ("struct unknown", "Nope{ x: 78 }", False), ("field unknown", 'Point{ x: 79, label: "l" }.nope', True),
        ("field on int", "80.x", True), ("unknown variable", "no_such_variable_81", False),
        ("unknown function", "no_such_function(82)", False), ("namespace access", "helper::nope", True),
        ("assert false", "assert(False)", True), ("assert eq", "assert(helper(83) == 85)", True),
        ("assert lt", "assert(86 < 84)", True), ("assert non-bool", "assert(87)", True),
        ("throw", 'throw("thrown-88")', False), ("or_throw none", "[89].get(5).or_throw()", True),
        ("or_throw err", 'Err("e90").or_throw()', True), ("add-assign type", 'local_num += "s17"', True),
        ("sub-assign type", "local_num -= True", True), ("add-assign non-int var", "local_str += 91", True),
        ("assign unknown", "nope_var = 92", True), ("nested", "helper(helper(93) / 0)", True),
        ("tuple elem", '(94, 95 + "s18")', True), ("some payload", "Some(96 / 0)", True),
        ("return hint", "clo_s()", True), ("method receiver error", "(98 / 0).as_float()", True),
        ("let unknown hint", "let uh: NoSuchType = 101", True), ("param unknown hint", "bad_param(102)", True),
        ("param unknown hint 2nd", "bad_param2(103, 104)", True), ("return unknown hint", "bad_ret()", True),
        ("closure unknown param hint", "(fun(q: NoSuchType) { q })(105)", True),
        ("closure unknown return hint", "(fun(): NoSuchType { 106 })()", True),
        ("method unknown param hint", "107.bad_meth(108)", True), ("method unknown return hint", "109.bad_meth_ret()", True),
        ("let unknown hint arg", "let uh2: List<NoSuchType> = [110]", True),
        ("dict non-string key", 'Dict["a" => 111, 112 => 113]', True), ("dict first key", "Dict[114 => 115]", True),
        ("dict value error", 'Dict["k" => 116 / 0]', True), ("list elem error 2nd", "[117, 118 / 0, 119]", True),
        ("struct field error", 'Point{ x: 120 / 0, label: "l" }', True), ("tuple first error", "(121 / 0, 122)", True),
    ]
    return sites


CONTEXTS = ["plain", "arg", "arg2", "in-fun", "in-for", "list-elem", "rhs"]
STATEMENT_SITES = ("let unknown hint", "let unknown hint arg", "let hint", "let hint list", "destructure count", "destructure non-tuple", "while non-bool",
                   "for non-list", "for destructure", "add-assign type", "sub-assign type", "add-assign non-int var",
                   "assign unknown", "assert false", "assert eq", "assert lt", "assert non-bool")


def embed(label, site, ctx):
    """-> (definitions, input) or None when the context does not apply (statements cannot be operands)."""
    is_stmt = label in STATEMENT_SITES
    pre = ('let local_num = 500\nlet local_str = "ls"\nlet clo = fun(q: Int): Int { q }\n'
           'let clo_s = fun(): String { 97 }\n')
    defs = DEFS.replace("SITE_PLACEHOLDER", "0")
    if ctx == "plain":
        return defs, pre + site
    if ctx == "in-for":
        # something must follow the loop: a `for` that is the last expression of a request is not run by the
        # session until the next :resume (a separate issue, left to C11)
        return defs, pre + "for loop_v in [601, 602] {\n  let in_loop = loop_v + 1\n  " + site + "\n  in_loop\n}\n0"
    if ctx == "in-fun":
        body_site = site if not is_stmt else "{0}".format(site)
        if is_stmt:
            d = DEFS.replace("  let r = SITE_PLACEHOLDER\n",
                             '  let local_num = 500\n  let local_str = "ls"\n  let clo = fun(q: Int): Int { q }\n'
                             '  let clo_s = fun(): String { 97 }\n  ' + site + "\n")
        else:
            d = DEFS.replace("  let r = SITE_PLACEHOLDER\n",
                             '  let local_num = 500\n  let local_str = "ls"\n  let clo = fun(q: Int): Int { q }\n'
                             '  let clo_s = fun(): String { 97 }\n  let r = ' + site + "\n")
        return d, "in_fun(700) + 1"
    if is_stmt:
        return None
    if ctx == "arg":
        return defs, pre + f"helper({site})"
    if ctx == "arg2":
        return defs, pre + f"helper2(801, {site})"
    if ctx == "list-elem":
        return defs, pre + f"[901, {site}, 902]"
    if ctx == "rhs":
        return defs, pre + f"1000 + ({site})"
    raise ValueError(ctx)


def enum_cases(tier):
    sites = catalogue()
    batch = []
    for (label, site, saved), ctx in itertools.product(sites, CONTEXTS):
        e = embed(label, site, ctx)
        if e is None:
            continue
        defs, inp = e
        n = 1 + (len(batch) % 3)
        batch.append({"label": label, "ctx": ctx, "defs": defs, "input": inp, "resumes": n, "saved": saved})
        if len(batch) == 1:
            yield {"histories": batch}
            batch = []


def gen_random(r):
    sites = catalogue()
    hs = []
    for _ in range(r.int(1, 3)):
        label, site, saved = r.choice(sites)
        ctx = r.choice(CONTEXTS)
        # randomise the recognisable literals
        k = r.int(1, 9)
        site = site.replace("11", str(110 + k)).replace("12", str(120 + k))
        e = embed(label, site, ctx)
        if e is None:
            e = embed(label, site, "plain")
        hs.append({"label": label, "ctx": ctx, "defs": e[0], "input": e[1], "resumes": r.int(1, 3), "saved": saved})
    return {"histories": hs}


def norm(tag_text_pos):
    tag, text, pos = tag_text_pos
    return (tag, text, tuple(pos) if pos else None)


def check(case, ctx) -> Res:
    nt = 0
    classes = set()
    total = 0
    for h in case["histories"]:
        lines = [json.dumps({"method": "run", "input": h["defs"]}),
                 json.dumps({"method": "run", "input": h["input"]})]
        lines += [json.dumps({"method": "run", "input": ":resume"})] * h["resumes"]
        lines += [json.dumps({"method": "run", "input": ":abort"}), json.dumps({"method": "run", "input": "424242 + 0"})]
        sr = run_session(ctx, None, raw_lines=lines, timeout=60)
        desc = f"site [{h['label']}] in context [{h['ctx']}]:\n{h['input']}"
        total += 1
        if sr.run.timed_out:
            return Res(ok=True, inconclusive=True, detail="session timeout\n" + desc)
        answers = sr.responses()
        if sr.run.crashed or sr.run.rc != 0:
            k = len(answers)
            what = "the failing input" if k <= 1 else (":resume #%d" % (k - 1) if k - 2 < h["resumes"] else "later")
            return fail(f"session died on {('first evaluation' if k <= 1 else ':resume')} [{h['label']}]: {sr.run.crash_sig()}",
                        f"{desc}\nprocess died (exit {sr.run.rc}) while handling {what}\n{sr.run.err[-500:]}",
                        classes=(f"ctx:{h['ctx']}",))
        if len(answers) != len(lines):
            return fail("wrong number of responses", f"{desc}\n{len(lines)} requests, {len(answers)} responses")
        first = norm(summarize(answers[1][2]))
        if first[0] == "parse_error":
            # a catalogue entry that does not parse is a defect of this harness, never of garden
            classes.add(f"BROKEN-CATALOGUE-ENTRY:{h['label']}/{h['ctx']}")
            continue
        if first[0] != "error":
            classes.add("site-did-not-fail")
            classes.add(f"nofail:{h['label']}/{h['ctx']}:{first[0]}")
            continue
        resumes = [norm(summarize(a[2])) for a in answers[2:2 + h["resumes"]]]
        for i, rs in enumerate(resumes):
            if rs[0] != "error":
                return fail(f"resume did not fail again [{h['label']}]",
                            f"{desc}\nfirst failure: {first[1]!r} at {first[2]}\n:resume #{i + 1} answered {rs[0]}: {rs[1]!r}",
                            classes=(f"ctx:{h['ctx']}",))
            # resume responses must be identical to each other
            if rs != resumes[0]:
                return fail(f"successive resumes report different errors [{h['label']}]",
                            f"{desc}\n:resume #1: {resumes[0][1]!r} at {resumes[0][2]}\n:resume #{i + 1}: {rs[1]!r} at {rs[2]}",
                            classes=(f"ctx:{h['ctx']}",))
        r0 = resumes[0]
        same_msg = r0[1] == first[1] or first[1] == "Assertion failed" or \
            (first[1] or "").replace("Exception: ", "") == (r0[1] or "").replace("Exception: ", "")
        if not same_msg or r0[2] != first[2]:
            return fail(f"resume reports a different error from the original failure [{h['label']}]",
                        f"{desc}\nfirst failure: {first[1]!r} at {first[2]}\n:resume:       {r0[1]!r} at {r0[2]}",
                        classes=(f"ctx:{h['ctx']}",))
        if h["saved"]:
            nt += 1
        classes.add(f"ctx:{h['ctx']}")
    return Res(ok=True, nontrivial=nt > 0, classes=tuple(sorted(classes)), extra=total)


def show(case):
    return [f"[{h['label']} / {h['ctx']}] {h['input']}" for h in case["histories"]]


SUBS = [
    Sub("catalogue", check, enum=enum_cases, show=show),
    Sub("random", check, gen=gen_random, cases={"quick": 200, "thorough": 8000}, show=show),
]
