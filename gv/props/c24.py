"""C24 — sandboxed code cannot touch files, processes or stdin."""
from __future__ import annotations

import itertools
import os

from ..core import Res, Sub, fail
from .. import sandbox as SB

PROPERTY_ID = "C24"
LEVEL = "exploration"
EXHAUSTIVE = True
RULE = ("Exhaustive: every effectful built-in (fs::read_file, read_file_bytes, write_file, write_bytes, copy_file, "
        "remove_file, list_directory, create_dir, remove_dir, set_working_directory; Path::exists, Path::info; "
        "shell::run; read_line) x argument variants (well-typed targeting canary files, wrong-typed, wrong arity) x 18 "
        "position classes: 7 where the call's value is used (top level, after harmless code, inside a function, "
        "inside a closure passed to map, inside a method, as an argument of another call, inside a function called "
        "from a test) and 11 where it is discarded (a statement followed by other code at top level, in a function / "
        "closure / method body, in an if / for / while / match-arm / else body, in a function called from a test, "
        "directly in a test body) x {playground-run, sandboxed-test}; random sequences of several calls, each used or "
        "discarded. Environment oracle: a scratch directory with canary files and canary "
        "executables first on PATH (each drops a marker when started); its tree (names and content hashes) must be "
        "identical afterwards and the marker absent; stdin is a pipe holding a recognisable token that must not "
        "appear in the output. Result oracle: a reached, well-typed effectful call ends the evaluation with the "
        "'unsafe code in sandboxed mode' error. Non-trivial = the effectful call was reached (the marker println "
        "before it was printed) with well-typed arguments; distinct = distinct program.")
ASSUMPTIONS = ["reading the process's working directory name / environment variables / the clock is not in the "
               "property's list (files, processes, standard input) and is not asserted"]
MANIFEST = dict(
    category="exploration",
    technique="exhaustive enumeration of effectful built-ins x argument variants x call positions under an "
              "effect-monitoring harness (canary files, canary executables, stdin token)",
    text="~560 sandboxed runs (quick), each in its own monitored scratch directory; any change of the directory "
         "tree, any started process, any consumed stdin, or a missing sandbox error is a violation.",
    note="Trusted: the directory snapshot / marker / token monitoring in gv/sandbox.py.",
    ref="DESIGN.md section 3, C24",
)

IMPORTS = 'import "__fs.gdn" as fs\nimport "__shell.gdn" as shell\n'
# (label, call expression, well-typed?)
EFFECTS = [
    ("fs::read_file", 'fs::read_file(Path{ p: "canary_in.txt" })', True),
    ("fs::read_file_bytes", 'fs::read_file_bytes(Path{ p: "canary_in.txt" })', True),
    ("fs::write_file", 'fs::write_file("overwritten", Path{ p: "canary_in.txt" })', True),
    ("fs::write_file new", 'fs::write_file("new", Path{ p: "created_by_sandbox.txt" })', True),
    ("fs::write_bytes", 'fs::write_bytes([104, 105], Path{ p: "created_bytes.bin" })', True),
    ("fs::copy_file", 'fs::copy_file(Path{ p: "canary_in.txt" }, Path{ p: "copied.txt" })', True),
    ("fs::remove_file", 'fs::remove_file(Path{ p: "canary_in.txt" })', True),
    ("fs::list_directory", 'fs::list_directory(Path{ p: "." })', True),
    ("fs::create_dir", 'fs::create_dir(Path{ p: "made_dir" })', True),
    ("fs::remove_dir", 'fs::remove_dir(Path{ p: "canary_dir" })', True),
    # changes the process's working directory: no file is created / modified / deleted / read, no process started,
    # so only the effect monitoring applies (well_typed=False switches the result oracle off)
    ("fs::set_working_directory", 'fs::set_working_directory(Path{ p: "canary_dir" })', False),
    ("Path::exists", 'Path{ p: "canary_in.txt" }.exists()', True),
    ("Path::info", 'Path{ p: "canary_in.txt" }.info()', True),
    ("shell::run", 'shell::run("canary_cmd", [])', True),
    ("shell::run echo", 'shell::run("echo", ["x"])', True),
    ("read_line", "read_line()", True),
    # ill-typed / wrong arity: must still have no effect (any Garden error is fine)
    ("fs::write_file wrong type", 'fs::write_file(1, Path{ p: "created_by_sandbox.txt" })', False),
    ("fs::write_file path as string", 'fs::write_file("x", "created_by_sandbox.txt")', False),
    ("fs::remove_file arity", 'fs::remove_file()', False),
    ("shell::run wrong args", 'shell::run("canary_cmd", "notalist")', False),
    ("shell::run arity", 'shell::run("canary_cmd")', False),
    ("read_line arity", "read_line(1)", False),
    ("fs::read_file arity", 'fs::read_file(Path{ p: "canary_in.txt" }, 1)', False),
]
POSITIONS = ["top", "after-code", "in-fun", "in-closure", "in-method", "as-arg", "in-test",
             # positions where the call's value is discarded (a statement followed by other code)
             "top-stmt", "stmt-in-fun", "stmt-in-closure", "stmt-in-method", "stmt-in-if", "stmt-in-for",
             "stmt-in-while", "stmt-in-match", "stmt-in-else", "stmt-in-test", "stmt-in-test-body"]
MARK = "REACHED-MARKER"


def program(call: str, pos: str):
    """-> (source, offset for sandboxed-test or None)"""
    reach = f'println("{MARK}")\n'
    if pos == "top":
        return IMPORTS + reach + f"let res = {call}\nprintln(string_repr(res))\n", None
    if pos == "after-code":
        return IMPORTS + "let a = [1, 2, 3].map(fun(x: Int): Int { x * 2 })\nprintln(string_repr(a))\n" + reach + \
            f"let res = {call}\nprintln(string_repr(res))\n", None
    if pos == "in-fun":
        return IMPORTS + f"fun doit(): String {{\n  {reach}  string_repr({call})\n}}\nprintln(doit())\n", None
    if pos == "in-closure":
        return IMPORTS + f"let rs = [1].map(fun(x: Int): String {{\n  {reach}  string_repr({call})\n}})\nprintln(string_repr(rs))\n", None
    if pos == "in-method":
        return IMPORTS + f"method doit(this: Int): String {{\n  {reach}  string_repr({call})\n}}\nprintln(5.doit())\n", None
    if pos == "as-arg":
        return IMPORTS + reach + f"println(string_repr([string_repr({call})]))\n", None
    if pos == "in-test":
        src = IMPORTS + f"fun target(): String {{\n  {reach}  string_repr({call})\n}}\ntest calls_target {{\n  target()\n}}\n"
        return src, src.index("target()")
    after = 'println("after the call")\n'
    if pos == "top-stmt":
        return IMPORTS + reach + f"{call}\n" + after, None
    if pos == "stmt-in-fun":
        return IMPORTS + f"fun doit(): Int {{\n  {reach}  {call}\n  {after}  1\n}}\nprintln(string_repr(doit()))\n", None
    if pos == "stmt-in-closure":
        return IMPORTS + f"let rs = [1].map(fun(x: Int): Int {{\n  {reach}  {call}\n  {after}  x\n}})\nprintln(string_repr(rs))\n", None
    if pos == "stmt-in-method":
        return IMPORTS + f"method doit(this: Int): Int {{\n  {reach}  {call}\n  {after}  this\n}}\nprintln(string_repr(5.doit()))\n", None
    if pos == "stmt-in-if":
        return IMPORTS + f"fun doit(c: Bool): Int {{\n  if c {{\n    {reach}    {call}\n    {after}  }}\n  1\n}}\nprintln(string_repr(doit(True)))\n", None
    if pos == "stmt-in-for":
        return IMPORTS + f"fun doit(): Int {{\n  for i in [1, 2] {{\n    {reach}    {call}\n    {after}  }}\n  1\n}}\nprintln(string_repr(doit()))\n", None
    if pos == "stmt-in-while":
        return IMPORTS + f"fun doit(): Int {{\n  let n = 0\n  while n < 2 {{\n    n += 1\n    {reach}    {call}\n    {after}  }}\n  n\n}}\nprintln(string_repr(doit()))\n", None
    if pos == "stmt-in-match":
        return IMPORTS + f"fun doit(o: Option<Int>): Int {{\n  match o {{\n    Some(v) => {{\n      {reach}      {call}\n      {after}      v\n    }}\n    None => 0\n  }}\n}}\nprintln(string_repr(doit(Some(1))))\n", None
    if pos == "stmt-in-else":
        return IMPORTS + f"fun doit(c: Bool): Int {{\n  if c {{\n    0\n  }} else {{\n    {reach}    {call}\n    2\n  }}\n}}\nprintln(string_repr(doit(False)))\n", None
    if pos == "stmt-in-test":
        src = IMPORTS + f"fun target(): Int {{\n  {reach}  {call}\n  {after}  1\n}}\ntest calls_target {{\n  target()\n  assert(1 == 1)\n}}\n"
        return src, src.index("target()\n  assert")
    if pos == "stmt-in-test-body":
        src = IMPORTS + f"test effect_in_body {{\n  {reach}  {call}\n  {after}  assert(1 == 1)\n}}\n"
        return src, src.index("effect_in_body")
    raise ValueError(pos)


def run_case(ctx, src, offset, command):
    d = SB.make_arena(ctx)
    with open(os.path.join(d, "prog.gdn"), "w") as f:
        f.write(src)
    before = SB.snapshot(d)
    if command == "playground-run":
        r = SB.run_sandboxed(["playground-run", "prog.gdn"], d, stdin_mode="token", timeout=20)
    else:
        r = SB.run_sandboxed(["sandboxed-test", "prog.gdn", str(offset)], d, stdin_mode="token", timeout=20)
    after = SB.snapshot(d)
    return d, r, before, after


def judge(label, well_typed, src, command, r, before, after):
    what = f"[{label}] under {command}"
    if r.timed_out:
        return Res(ok=True, inconclusive=True, detail=f"{what}: did not finish in 20 s (C25's business)\n{src}")
    if r.crashed:
        return fail("sandboxed run crashed: " + (r.err.strip().split("\n")[0][:80] if r.err.strip() else f"rc {r.rc}"),
                    f"{what}\n{r.err[-300:]}\n{src}")
    if "PROCESS_STARTED_MARKER" in after:
        return fail(f"a process was started in sandboxed mode [{label.split(' ')[0]}]", f"{what}\n--- program\n{src}")
    if after != before:
        diff = {k: (before.get(k), after.get(k)) for k in set(before) | set(after) if before.get(k) != after.get(k)}
        return fail(f"the file system was changed in sandboxed mode [{label.split(' ')[0]}]",
                    f"{what}: {diff}\n--- program\n{src}")
    if SB.STDIN_TOKEN in r.out or SB.STDIN_TOKEN in r.err:
        return fail(f"standard input was read in sandboxed mode [{label.split(' ')[0]}]",
                    f"{what}: the stdin token appears in the output\n{r.out[:300]}\n--- program\n{src}")
    if "canary file content" in r.out:
        return fail(f"a file was read in sandboxed mode [{label.split(' ')[0]}]",
                    f"{what}: the canary file's content appears in the output\n--- program\n{src}")
    reached = MARK in r.out
    if well_typed and reached and command == "playground-run":
        vals, _ = r.json_lines()
        last = vals[-1] if vals else {}
        if "unsafe code in sandboxed mode" not in str(last.get("error")):
            return fail(f"a reached effectful call did not raise the sandbox error [{label.split(' ')[0]}]",
                        f"{what}: final line {last}\n--- output\n{r.out[:400]}\n--- program\n{src}")
    if command == "sandboxed-test":
        # a sandboxed test's printed output is not shown; in every test position the call is reached unconditionally
        reached = True
    if well_typed and command == "sandboxed-test":
        vals, _ = r.json_lines()
        tests = (vals[-1].get("tests") if vals and isinstance(vals[-1], dict) else None) or {}
        if not tests or any(t.get("description") != "sandboxed" for t in tests.values()):
            return fail(f"a reached effectful call did not raise the sandbox error [{label.split(' ')[0]}]",
                        f"{what}\n--- output\n{r.out[:400]}\n--- program\n{src}")
    return Res(ok=True, nontrivial=bool(well_typed and reached), classes=(f"cmd:{command}", "reached" if reached else "not-reached"))


def check(case, ctx) -> Res:
    label, call, well_typed, pos = case["label"], case["call"], case["well_typed"], case["pos"]
    src, offset = program(call, pos)
    command = "sandboxed-test" if pos in ("in-test", "stmt-in-test", "stmt-in-test-body") else "playground-run"
    d, r, before, after = run_case(ctx, src, offset, command)
    return judge(label, well_typed, src, command, r, before, after)


def enum_cases(tier):
    for (label, call, wt), pos in itertools.product(EFFECTS, POSITIONS):
        yield {"label": label, "call": call, "well_typed": wt, "pos": pos}


def gen_random(r):
    """Several effectful calls in one program, each guarded by harmless code."""
    n = r.int(2, 4)
    picks = [r.choice(EFFECTS) for _ in range(n)]
    body = IMPORTS
    for i, (label, call, wt) in enumerate(picks):
        if r.bool():
            body += f'println("{MARK}")\nlet res_{i} = {call}\nprintln(string_repr(res_{i}))\n'
        else:
            body += f'fun discard_{i}(): Int {{\n  println("{MARK}")\n  {call}\n  {i}\n}}\nprintln(string_repr(discard_{i}()))\n'
    return {"label": " + ".join(p[0] for p in picks), "src": body, "well_typed": picks[0][2]}


def check_random(case, ctx) -> Res:
    d, r, before, after = run_case(ctx, case["src"], None, "playground-run")
    return judge(case["label"], case["well_typed"], case["src"], "playground-run", r, before, after)


def show(case):
    if "src" in case:
        return case["src"]
    return f"[{case['label']}] at {case['pos']}: {case['call']}"


SUBS = [
    Sub("effects-x-positions", check, enum=enum_cases, show=show),
    Sub("random-sequences", check_random, gen=gen_random, cases={"quick": 150, "thorough": 5000}, show=show),
]
