"""C05 — core-language programs behave as the reference semantics says (differential execution)."""
from __future__ import annotations

import re

from ..core import Res, Sub, fail, run_garden
from ..gen import core as G
from ..model import refinterp as RI

PROPERTY_ID = "C05"
LEVEL = "exploration"
RULE = ("Random typed, well-scoped, terminating core-language programs (G-core: let/assignment/+=, if/else, while, for, "
        "break/continue/return, named and recursive functions, closures, match over Option/Result/user enum, lists, "
        "tuples) with randomised knobs (shadowing, annotations, early-exit bias), plus a loop-heavy exit-stress "
        "population (loop bodies that shadow outer names and leave through break/continue inside if/match). `garden run` stdout must equal the "
        "reference interpreter's output byte for byte and the outcome class (success / which runtime error) must "
        "agree. Non-trivial = the program has a loop with an early exit, a closure call or a match binding a payload, "
        "and prints >= 5 lines; distinct = distinct source text.")
ASSUMPTIONS = ["reference interpreter gv/model/refinterp.py (written from the property statements and website pages)",
               "argument / element evaluation order and closure capture mode are undocumented and made unobservable "
               "by the generator"]
MANIFEST = dict(
    category="exploration",
    technique="differential testing against an independent reference interpreter over randomly generated typed programs",
    text="~1 500 (quick) / 50 000 (thorough) generated programs per run; any difference in printed output or in the "
         "kind of runtime error is a violation, shrunk by Hypothesis to a small program.",
    note="Trusted: the reference interpreter and the generator's scoping/typing discipline; nothing inside garden.",
    ref="DESIGN.md section 3, C05",
)


def random_knobs(r):
    return G.Knobs(
        shadowing=r.bool(0.7),
        annotations=r.choice(["full", "partial", "none"]),
        early_exit_bias=r.bool(0.4),
        errors=r.bool(0.6),
        max_stmts=r.choice([4, 8, 12]),
        max_funs=r.choice([0, 1, 3]),
    )


def expected(prog):
    it = RI.Interp()
    try:
        out, outcome = it.run(prog)
    except RI.Budget:
        return None
    except RecursionError:
        return None
    return out, outcome


def stress_knobs(r):
    return G.Knobs(shadowing=True, annotations=r.choice(["full", "none"]), early_exit_bias=True, exit_stress=True,
                   errors=False, max_stmts=r.choice([6, 10]), max_funs=r.choice([0, 0, 1]), closures=r.bool(0.3))


def gen_stress(r):
    return gen(r, stress_knobs(r))


def gen(r, knobs=None):
    prog, src = G.generate(r, knobs or random_knobs(r))
    exp = expected(prog)
    feats = sorted(G.features(prog))
    if exp is None:
        return {"src": src, "skip": "model budget exceeded", "features": feats}
    out, outcome = exp
    return {"src": src, "out": out, "outcome": list(outcome), "features": feats}


def classify_outcome(err: str):
    """-> ("ok",) or ("err", first line of the report)"""
    m = re.search(r"^(Exception|Error): (.*?)(?=^-+\| |\Z)", err, re.S | re.M)
    if not m:
        return ("ok",) if not err.strip() else ("stderr", err.strip()[:300])
    return ("err", m.group(2).rstrip("\n"))


def outcome_matches(exp, got):
    if exp[0] == "ok":
        return got[0] == "ok"
    if got[0] != "err":
        return False
    kind, msg = exp[1], exp[2]
    text = "Exception: " + got[1]
    if kind == "throw":
        return got[1] == msg
    pat = RI.OUTCOME_PATTERNS.get(kind)
    return bool(pat and re.search(pat, text))


def check(case, ctx) -> Res:
    if case.get("skip"):
        return Res(ok=True, classes=("skipped:" + case["skip"],))
    src = case["src"]
    path = ctx.scratch.file(src)
    r = run_garden(["run", path], cwd=ctx.scratch.root, timeout=30)
    feats = set(case.get("features", []))
    cls = ["outcome:" + (case["outcome"][0] if case["outcome"][0] == "ok" else case["outcome"][1])]
    cls += ["has:" + f for f in feats]
    if r.timed_out:
        return Res(ok=True, inconclusive=True, detail="garden run timed out (30 s) on a terminating program:\n" + src)
    if r.crashed:
        return fail(r.crash_sig(), f"interpreter crashed\n{r.err[-600:]}\n--- program\n{src}", classes=cls)
    exp_out = "".join(line + "\n" for line in case["out"])
    got = classify_outcome(r.err)
    if r.out != exp_out:
        return fail(diff_signature(case, r.out, exp_out, got),
                    f"stdout differs from the reference interpreter\n--- expected\n{exp_out}--- got\n{r.out}"
                    f"--- stderr\n{r.err[:600]}\n--- program\n{src}", classes=cls)
    if not outcome_matches(case["outcome"], got):
        return fail("outcome differs: expected " + (case["outcome"][0] if case["outcome"][0] == "ok" else case["outcome"][1]),
                    f"expected outcome {case['outcome']}, got {got}\n--- program\n{src}", classes=cls)
    nt = len(case["out"]) >= 5 and bool(feats & {"loop-early-exit", "closure-call", "match-payload"})
    return Res(ok=True, nontrivial=nt, classes=tuple(cls))


def diff_signature(case, got_out, exp_out, got_outcome):
    if got_outcome[0] == "err" and case["outcome"][0] == "ok":
        first = got_outcome[1].split("\n")[0]
        first = re.sub(r"`[^`]*`", "`_`", first)
        first = re.sub(r"\d+", "N", first)
        return "unexpected runtime error: " + first[:80]
    return "stdout differs"


def show(case):
    return case["src"]


SUBS = [
    Sub("differential", check, gen=gen, cases={"quick": 1500, "thorough": 50000}, show=show),
    # loop-heavy population: loop bodies declare shadowing names and leave through break/continue nested in
    # if / match wrappers (added after a seeded change that only this shape exposes was missed)
    Sub("exit-stress", check, gen=gen_stress, cases={"quick": 700, "thorough": 20000}, show=show),
]
