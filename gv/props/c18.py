"""C18 — formatting is idempotent."""
from __future__ import annotations

import zlib

from ..core import Res, Sub, fail, run_garden, hook_panic_signature
from ..gen import layout as L
from ..gen import text as T
from .c17 import fmt_of, features

PROPERTY_ID = "C18"
LEVEL = "exploration"
RULE = ("Everything C17 uses (seed corpus, generated programs, layout perturbations with comments and multi-line "
        "strings) PLUS inputs with parse errors (token soup, token-level mutations and truncations of valid programs, "
        "arbitrary Unicode text), since the quantifier is every input, and function signatures written without optional "
        "spaces whose length is just below the 100-column limit. Oracle: format(format(x)) == format(x) "
        "byte for byte; on a hashed 5% sample (and on replay) `garden format --check` run on a file holding "
        "format(x) must exit 0 and `garden format` must reproduce the hook's output. A crash is C01's business and "
        "is reported as inconclusive here. Failures are classified by input population (corpus / canonical printer "
        "layout / layout-perturbed / unparseable-or-random), by whether only leading whitespace differs, and by "
        "whether repeated formatting reaches a fixed point within six passes. Non-trivial = format(x) != x; distinct = distinct input text.")
ASSUMPTIONS = ["the generator never emits a line starting `// args: ` (the CLI strips a reftest footer from there)"]
MANIFEST = dict(
    category="exploration",
    technique="metamorphic property testing (f(f(x)) == f(x)) over valid, perturbed and broken inputs",
    text="~6 000 (quick) / 200 000 (thorough) inputs formatted twice through the real formatter; any difference "
         "between the first and second pass is a violation.",
    note="Trusted: byte comparison; the `format` hook op is cross-checked against the CLI on a sample.",
    ref="DESIGN.md section 3, C18",
)


def check(case, ctx) -> Res:
    src = case["src"]
    f1 = fmt_of(ctx, src)
    if "died" in f1 or "panic" in f1:
        return Res(ok=True, inconclusive=True, detail="formatter crashed (reported by C01): " + str(f1)[:200])
    out1 = f1["formatted"]
    f2 = fmt_of(ctx, out1)
    if "died" in f2 or "panic" in f2:
        return Res(ok=True, inconclusive=True, detail="formatter crashed on its own output (C01): " + str(f2)[:200])
    out2 = f2["formatted"]
    cls = ["changed" if out1 != src else "already-formatted"] + ["has:" + x for x in features(src)]
    if out2 != out1:
        # does repeated formatting reach a fixed point? (slow convergence and oscillation are different root causes)
        cur, settles = out2, False
        for _ in range(5):
            fn = fmt_of(ctx, cur)
            if "formatted" not in fn:
                break
            if fn["formatted"] == cur:
                settles = True
                break
            cur = fn["formatted"]
        a, b = out1.split("\n"), out2.split("\n")
        indent_only = len(a) == len(b) and all(x.lstrip() == y.lstrip() for x, y in zip(a, b))
        i = next((k for k in range(min(len(a), len(b))) if a[k] != b[k]), min(len(a), len(b)))
        la = a[i] if i < len(a) else "<eof>"
        lb = b[i] if i < len(b) else "<eof>"
        pop = case.get("pop", "?")
        sig = (f"not idempotent [{pop} input]: {'indentation only' if indent_only else 'content changes'}, "
               f"{'reaches a fixed point within six passes' if settles else 'no fixed point within six passes'}")
        long_sig = [ln for ln in a if len(ln) > 100 and ln.lstrip().startswith(("fun ", "method ", "public fun ", "public method "))]
        if long_sig and settles and not any(len(ln) > 100 for ln in b if ln in long_sig):
            # one root cause with its own signature: the wrapping phase measured the signature line before the
            # spacing phases lengthened it past the limit, so it is only wrapped by the next pass
            sig = "not idempotent: a signature line that crosses 100 columns only after spacing is fixed is wrapped on the second pass"
        return fail(sig, f"first differing line {i + 1}:\n  pass 1: {la!r}\n  pass 2: {lb!r}\n--- input\n{src}\n"
                         f"--- pass 1\n{out1}\n--- pass 2\n{out2}", classes=cls)
    if ctx.strict or (zlib.crc32(src.encode("utf-8", "replace")) % 20 == 0):
        if "// args: " not in out1:
            path = ctx.scratch.file(out1)
            r = run_garden(["format", "--check", path], cwd=ctx.scratch.root)
            if r.crashed:
                return Res(ok=True, inconclusive=True, detail="CLI crashed (C01)")
            if r.rc != 0:
                return fail("`garden format --check` rejects the formatter's own output",
                            f"rc={r.rc} {r.err[:200]}\n--- input\n{src}\n--- formatted\n{out1}", classes=cls)
            p2 = ctx.scratch.file(src)
            r2 = run_garden(["format", p2], cwd=ctx.scratch.root)
            if not r2.crashed and r2.rc == 0 and r2.out != out1:
                return fail("CLI `garden format` disagrees with the hook", f"--- cli\n{r2.out}\n--- hook\n{out1}", classes=cls)
            cls.append("cli-checked")
    return Res(ok=True, nontrivial=out1 != src, classes=tuple(cls))


def gen_valid(r):
    base = L.base_source(r)
    src = L.perturb(r, base)
    if r.bool(0.3):
        src = L.perturb(r, src)
    return {"src": src, "pop": "layout-perturbed"}


def gen_canonical(r):
    """Generated programs and extra statements exactly as the printer lays them out (no perturbation)."""
    return {"src": L.base_source(r), "pop": "canonical"}


def gen_broken(r):
    k = r.int(0, 3)
    if k == 0:
        return {"src": T.g_tokens(r, 40), "pop": "unparseable-or-random"}
    if k == 1:
        return {"src": T.g_mutate(r, r.choice(T.corpus())["src"]), "pop": "unparseable-or-random"}
    if k == 2:
        return {"src": T.g_mutate(r, L.perturb(r, L.base_source(r)), 3), "pop": "unparseable-or-random"}
    return {"src": T.g_text(r, 60), "pop": "unparseable-or-random"}


def gen_near_limit(r):
    """function / method signatures written without optional spaces whose length is just below the 100-column
    limit, so that fixing the spacing pushes them over it"""
    n = r.int(2, 6)
    params = [f"param_{i}:{r.choice(['Int', 'String', 'List<Int>', 'Bool'])}" for i in range(n)]
    ret = r.choice([":Int", ":String", ""])
    head = r.choice(["fun ", "public fun "])
    sep = r.choice([", ", ","])
    body = " { 1 }"
    base = head + "f" + "(" + sep.join(params) + ")" + ret + body
    target = r.int(88, 104)
    name = "f" + "x" * max(0, target - len(base))
    line = head + name + "(" + sep.join(params) + ")" + ret + body
    extra = r.choice(["", "\nlet after = 1\n", "\n// trailing comment\n"])
    return {"src": line + "\n" + extra, "pop": "near-limit-signature"}


def enum_corpus(tier):
    for e in T.corpus():
        yield {"src": e["src"], "pop": "corpus"}


def show(case):
    return case["src"]


SUBS = [
    Sub("corpus", check, enum=enum_corpus, show=show),
    Sub("canonical", check, gen=gen_canonical, cases={"quick": 1500, "thorough": 50000}, show=show),
    Sub("valid-perturbed", check, gen=gen_valid, cases={"quick": 3000, "thorough": 100000}, show=show),
    Sub("near-limit-signatures", check, gen=gen_near_limit, cases={"quick": 400, "thorough": 8000}, show=show),
    Sub("with-parse-errors", check, gen=gen_broken, cases={"quick": 3000, "thorough": 100000}, show=show),
]
