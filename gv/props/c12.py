"""C12 — printed values read back as equal values (round trip through string_repr and the parser)."""
from __future__ import annotations

from ..core import Res, Sub, fail
from ..evalbatch import eval_cases
from ..gen import values as V

PROPERTY_ID = "C12"
LEVEL = "exploration"
RULE = ("Type-directed random values with literal syntax (i64 incl. boundaries, finite f64 from random bit patterns and "
        "specials, strings over quotes/backslashes/newline/tab/CR/multi-byte incl. strings ending in a backslash, "
        "lists, tuples of arity 0-3, dicts, Bool/Unit/Option/Result, two structs, an enum; depth <= 3), 10 per batch. "
        "For each value v built by an independent source expression: (1) string_repr(v) must equal the harness's own "
        "rendering of v; (2) that text, evaluated as source, must parse and print the same text; (3) `v == <text>` "
        "must be True. Non-trivial = the value contains a string with quote/backslash/newline/tab/non-ASCII, or a "
        "float, or nesting depth >= 2; distinct = distinct value.")
ASSUMPTIONS = ["the harness's renderer (gv/gen/values.py) follows the literal syntax documented for each value kind; "
               "floats use the shortest round-trip decimal expansion"]
MANIFEST = dict(
    category="exploration",
    technique="round-trip property testing (print -> parse -> print, tied to an independent renderer) over "
              "type-directed random values",
    text="~6 000 (quick) / 200 000 (thorough) generated values; the printed text is compared with an independent "
         "rendering, re-evaluated as source, re-printed and compared with the original by `==`.",
    note="Trusted: the value renderer/source writer in gv/gen/values.py.",
    ref="DESIGN.md section 3, C12",
)


def gen(r):
    n = r.int(1, 10)
    vals = []
    for _ in range(n):
        t = V.gen_type(r, r.int(0, 3))
        vals.append(V.to_json(V.gen_value(r, t)))
    return {"values": vals}


def kind_of(v):
    fs = V.features(v)
    for k in ("string-ends-backslash", "Float", "Dict", "special-string", "Struct", "Variant", "Tuple"):
        if k in fs:
            return k
    return v[0]


def check(case, ctx) -> Res:
    vals = [V.from_json(j) for j in case["values"]]
    a = eval_cases(ctx, [f"println(string_repr({V.src(v)}))" for v in vals], prelude=V.PRELUDE)
    s1 = []
    for v, o in zip(vals, a):
        if o is None or o.kind == "timeout":
            return Res(ok=True, inconclusive=True, detail=f"no outcome for {V.src(v)}")
        if o.kind == "crash":
            return fail(o.msg, f"printing {V.src(v)} crashed: {o.msg}")
        if o.kind != "ok":
            return fail(f"cannot build value: {kind_of(v)}", f"`{V.src(v)}` -> {o.kind}: {o.msg[:300]}")
        text = o.out[:-1] if o.out.endswith("\n") else o.out
        exp = V.render(v)
        if text != exp:
            return fail(f"printed form differs from the literal syntax: {kind_of(v)}",
                        f"value {V.src(v)}\n  printed  {text!r}\n  expected {exp!r}")
        s1.append(text)
    snippets = []
    for v, t in zip(vals, s1):
        snippets.append(f"println(string_repr({t}))\nprintln(string_repr({V.src(v)} == {t}))")
    b = eval_cases(ctx, snippets, prelude=V.PRELUDE)
    nt = 0
    classes = set()
    for v, t, o in zip(vals, s1, b):
        fs = V.features(v)
        if o is None or o.kind == "timeout":
            return Res(ok=True, inconclusive=True, detail=f"no outcome for re-evaluating {t!r}")
        if o.kind == "crash":
            return fail(o.msg, f"re-evaluating {t!r} crashed: {o.msg}")
        if o.kind == "parse_error":
            return fail(f"printed text is not valid source: {kind_of(v)}",
                        f"value {V.src(v)} prints as {t!r}, which does not parse:\n{o.msg[:400]}")
        if o.kind != "ok":
            return fail(f"printed text does not evaluate: {kind_of(v)}",
                        f"value {V.src(v)} prints as {t!r}; evaluating that text raised {o.msg[:300]}")
        lines = o.out.split("\n")
        if len(lines) < 2 or lines[0] != t:
            return fail(f"re-evaluated text prints differently: {kind_of(v)}",
                        f"value {V.src(v)} prints as {t!r}; evaluating that text prints {lines[0]!r}")
        if lines[1] != "True":
            return fail(f"re-evaluated value is not == the original: {kind_of(v)}",
                        f"`{V.src(v)} == {t}` evaluated to {lines[1]}")
        if fs & {"special-string", "Float", "depth>=2"}:
            nt += 1
        classes |= {f"has:{f}" for f in fs}
    return Res(ok=True, nontrivial=nt > 0, classes=tuple(sorted(classes)), extra=len(vals))


def show(case):
    return [V.src(V.from_json(j)) for j in case["values"][:5]]


SUBS = [Sub("roundtrip", check, gen=gen, cases={"quick": 600, "thorough": 20000}, show=show)]
