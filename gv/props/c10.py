"""C10 — `:abort` returns the session to a clean top level."""
from __future__ import annotations

import json

from ..core import Res, Sub, fail
from ..session import run_session, summarize

PROPERTY_ID = "C10"
LEVEL = "exploration"
RULE = ("Histories A = definitions D, top-level lets L (one request each), a failing input F whose error occurs "
        "inside 1..3 nested calls / a for body / if and match blocks with live locals and pending statements after "
        "the failing one, optionally followed by :resume / :skip / :replace / inspection commands / a second failing "
        "input, then :abort, then a probe list P. History B = a fresh session with D and L only, then P. P mixes "
        "expressions over D and L, reads of every local name used inside F, and :locals :stack :fvalues :fstmts "
        ":resume. Oracle: the responses to P are identical in A and B (kind, text, position, printed output); for the "
        "raw value-stack dump :fvalues the aborted session may only show a prefix of the fresh session's values. "
        "Non-trivial = F stopped at stack depth >= 2 with >= 1 live local and >= 1 pending statement after the "
        "failing one; distinct = distinct history.")
ASSUMPTIONS = ["F never declares top-level variables (a completed top-level let before the error has arguably "
               "happened; top-level braces do not open a scope in Garden): all of F's locals live in callee frames "
               "or real blocks, where the expected answer after :abort is unambiguous",
               "histories in which the session dies are C09's business and are reported there"]
MANIFEST = dict(
    category="exploration",
    technique="differential property testing between two real sessions (aborted history vs fresh session with the "
              "same definitions), over generated failing inputs and probe lists",
    text="~600 (quick) / 20 000 (thorough) generated histories; after :abort every probe (expressions, dead-local "
         "reads, :locals/:stack/:fvalues/:fstmts/:resume) must answer exactly as in a fresh session.",
    note="Trusted: the session driver and the response comparison.",
    ref="DESIGN.md section 3, C10",
)

DEFS = """fun helper(x: Int): Int { x + 1 }
fun deep3(v: Int): Int {
  let d3_local = v * 3
  let d3_res = d3_local / (v - v)
  println("after failure in deep3")
  d3_res
}
fun deep2(v: Int): Int {
  let d2_local = v + 20
  let r = deep3(d2_local)
  println("after deep3")
  r + 1
}
fun deep1(v: Int): Int {
  let d1_local = "one"
  if v > 0 {
    let d1_inner = v
    let r = deep2(d1_inner)
    println("after deep2")
    r
  } else {
    0
  }
}
fun loopy(n: Int): Int {
  let acc = 0
  for item in [1, 2, 3] {
    let in_loop = item * n
    match Some(in_loop) {
      Some(payload) => {
        let in_arm = payload + 1
        acc = acc + (in_arm / (item - 2))
      }
      None => {}
    }
  }
  acc
}
"""

FAILING = [
    ("deep1(4)", 4, ["d1_local", "d1_inner", "d2_local", "d3_local", "v", "r"]),
    ("deep2(5) + 1", 3, ["d2_local", "d3_local", "v", "r"]),
    ("deep3(6)", 2, ["d3_local", "v", "d3_res"]),
    ("loopy(2)", 2, ["acc", "item", "in_loop", "payload", "in_arm", "n"]),
    ("println(string_repr(deep1(7)))\nprintln(\"pending toplevel statement\")", 4, ["d1_local", "d1_inner", "v"]),
    ("if True {\n  let blk = 9\n  helper(deep3(blk))\n  println(\"pending in block\")\n}", 2, ["blk", "d3_local"]),
    ("for t in [10, 20] {\n  let per_iter = t\n  deep2(per_iter)\n  println(\"pending in loop\")\n}\n0", 3,
     ["t", "per_iter", "d2_local"]),
    ("match Some(3) {\n  Some(m) => {\n    let arm_local = m\n    deep3(arm_local)\n  }\n  None => { 0 }\n}", 2,
     ["m", "arm_local", "d3_local"]),
    ("1 / 0", 1, []),
    ("helper(\"wrong\")", 1, []),
]
MIDDLE = [":resume", ":skip", ":replace 1", ":locals", ":stack", ":fvalues", ":fstmts", ":forget_local v",
          ":type 1 + 2", "helper(1)"]


def gen(r):
    lets = []
    nl = r.int(0, 3)
    for i in range(nl):
        rhs = r.choice(["11", '"tv"', "[1, 2]", "helper(5)", "Some(3)"])
        lets.append(f"let top_{i} = {rhs}")
    f_src, depth, locals_ = r.choice(FAILING)
    middle = []
    for _ in range(r.int(0, 3)):
        m = r.choice(MIDDLE)
        middle.append(m)
    second = None
    if r.bool(0.25):
        second = r.choice(FAILING)[0]
    probes = []
    for _ in range(r.int(2, 7)):
        k = r.int(0, 7)
        if k == 0:
            probes.append(f"helper({r.int(1, 50)})")
        elif k == 1 and nl:
            probes.append(f"top_{r.int(0, nl - 1)}")
        elif k == 2 and locals_:
            probes.append(r.choice(locals_))
        elif k == 3:
            probes.append(r.choice([":locals", ":stack", ":fvalues", ":fstmts"]))
        elif k == 4:
            probes.append(":resume")
        elif k == 5:
            probes.append(f"let after_{len(probes)} = {r.int(1, 9)}\nafter_{len(probes)} + 1")
        elif k == 6:
            probes.append("loopy(5)" if r.bool(0.3) else "deep2(1)")
        else:
            probes.append(f"{r.int(100, 999)} + 0")
    uses_skip = any(m in (":skip", ":replace 1") for m in middle)
    return {"lets": lets, "failing": f_src, "depth": depth, "middle": middle, "second": second, "probes": probes,
            "has_locals": bool(locals_), "uses_skip": uses_skip}


def run_lines(ctx, inputs):
    return run_session(ctx, [{"method": "run", "input": s} for s in inputs], timeout=60)


def key(resp_triple):
    out, err, resp = resp_triple
    tag, text, pos = summarize(resp)
    frame = None
    k = resp.get("kind", {})
    if isinstance(k, dict):
        for v in k.values():
            if isinstance(v, dict) and "stack_frame_name" in v:
                frame = v["stack_frame_name"]
    return (tag, text, tuple(pos) if pos else None, out, frame)


def check(case, ctx) -> Res:
    base = [DEFS] + case["lets"]
    a_inputs = base + [case["failing"]] + case["middle"]
    if case["second"]:
        a_inputs = a_inputs + [case["second"]]
    a_inputs = a_inputs + [":abort"] + case["probes"]
    b_inputs = base + case["probes"]
    a = run_lines(ctx, a_inputs)
    b = run_lines(ctx, b_inputs)
    hist = "\n--- request ---\n".join(a_inputs[1:])
    cls = [f"depth:{case['depth']}", "middle-commands" if case["middle"] else "direct-abort"]
    if a.run.timed_out or b.run.timed_out:
        return Res(ok=True, inconclusive=True, detail="session timeout\n" + hist)
    if b.run.crashed or b.run.rc != 0:
        # the probes alone kill a fresh session: not about :abort (C09 reports session deaths)
        return Res(ok=True, inconclusive=True, detail="the fresh session died on the probes: " + b.run.crash_sig())
    if a.run.crashed or a.run.rc != 0:
        ra = a.responses()
        n_before_abort = len(a_inputs) - len(case["probes"]) - 1
        if len(ra) <= n_before_abort:
            # died before :abort was reached (e.g. the recorded :skip/:replace finding): C09's business
            return Res(ok=True, classes=("died-before-abort",), detail=a.run.crash_sig())
        return fail("session died after :abort: " + a.run.crash_sig(),
                    f"{a.run.err[-500:]}\n--- history (after the definitions)\n{hist}", classes=cls)
    ra, rb = a.responses(), b.responses()
    if len(ra) != len(a_inputs) or len(rb) != len(b_inputs):
        return fail("wrong number of responses", f"A: {len(a_inputs)} requests / {len(ra)} responses; "
                                                 f"B: {len(b_inputs)} / {len(rb)}\n{hist}", classes=cls)
    abort_resp = summarize(ra[len(a_inputs) - len(case["probes"]) - 1][2])
    if abort_resp[:2] != ("command", "Aborted"):
        return fail(":abort was not answered with 'Aborted'", f"{abort_resp}\n{hist}", classes=cls)
    pa = ra[len(ra) - len(case["probes"]):]
    pb = rb[len(rb) - len(case["probes"]):]
    for probe, xa, xb in zip(case["probes"], pa, pb):
        ka, kb = key(xa), key(xb)
        if probe == ":fvalues" and ka[0] == kb[0] == "command":
            # The raw value stack of the top-level frame also holds the Unit results of earlier, completed
            # requests, which :abort trims. The property forbids leftovers OF THE ABORTED evaluation, so the
            # requirement is "nothing extra": the values after :abort must be a prefix of the fresh session's.
            la, lb = ka[1].splitlines(), kb[1].splitlines()
            if la == lb[:len(la)] and ka[2:] == kb[2:]:
                continue
        if ka != kb:
            what = "inspection command" if probe.startswith(":") else "expression"
            return fail(f"after :abort a probe {what} answers differently from a fresh session",
                        f"probe: {probe}\n  after :abort : {ka}\n  fresh session: {kb}\n"
                        f"--- history (after the definitions)\n{hist}", classes=cls)
    nt = case["depth"] >= 2 and case["has_locals"]
    return Res(ok=True, nontrivial=nt, classes=tuple(cls))


def show(case):
    return [case["failing"]] + case["middle"] + [":abort"] + case["probes"]


SUBS = [Sub("abort-vs-fresh", check, gen=gen, cases={"quick": 600, "thorough": 20000}, show=show)]
